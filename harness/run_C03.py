"""C03 correspondence.

bind stream (Lean column): every signature with <= 2 parameters of each kind x call shapes with <= 4 positional and <= 3
keyword arguments, executed by pyscript (EvalFunc.call), by CPython (a real def), by the Lean model of the binding loop
and by the declarative reference.  impl == model (tie), CPython == spec (reference validated), impl == CPython (property).
scope stream (no Lean column): generated multi-function programs (nested defs, global/nonlocal, closures captured in
loops, recursion, user decorators, default/decorator evaluation time, small classes) pyscript vs CPython.
"""
import asyncio
import itertools
import re

import common
from common import Case, sx

PROP = "C03"
RULE = ("bind stream: signatures with 0-2 positional-only / positional-or-keyword / keyword-only parameters, every number "
        "of trailing defaults, every subset of keyword-only defaults, with/without *args and **kwargs, x calls with 0-4 "
        "positional arguments and 0-3 keywords drawn from parameter names, an unknown name and a reserved trigger keyword "
        "(quick: a seeded stratified sample of signatures, all call shapes; thorough: all).  scope stream: templates + random "
        "nestings.  Distinct by (signature, call) / source text; non-trivial when at least one argument or parameter exists.")
ASSUMPTIONS = [
    "all binding failures are TypeError in both interpreters (messages are not compared)",
    "natively compiled code (lambda, @pyscript_compile) sees only global scope (documented limitation, finding C03-F2)",
]
TRIGGER_KW = "value"
TRUSTED = ["harness/run_C03.py (signature/call renderers)", "CPython's own def/call as oracle of the reference binding"]


# ------------------------------------------------------------------ bind stream
def all_sigs():
    for npo, nn, nk in itertools.product(range(3), range(3), range(3)):
        for ndef in range(npo + nn + 1):
            for va in (False, True):
                for kwa in (False, True):
                    for kd in itertools.product((False, True), repeat=nk):
                        yield (npo, nn, ndef, va, kwa, kd)


def sig_src(sig):
    npo, nn, ndef, va, kwa, kd = sig
    po = [f"p{i}" for i in range(npo)]
    no = [f"a{i}" for i in range(nn)]
    allp = po + no
    parts = []
    for i, nm in enumerate(allp):
        j = i - (len(allp) - ndef)
        parts.append(nm + (f"=D{j}" if j >= 0 else ""))      # defaults are globals: truthy numbers or falsy objects
        if i == npo - 1:
            parts.append("/")
    if va:
        parts.append("*va")
    elif kd:
        parts.append("*")
    for i, d in enumerate(kd):
        parts.append(f"k{i}" + (f"=KD{i}" if d else ""))
    if kwa:
        parts.append("**kw")
    names = allp + [f"k{i}" for i in range(len(kd))]
    return ", ".join(parts), names, po, no


CALL_POOL = ["p0", "a0", "a1", "k0", "k1", "zz", TRIGGER_KW]


def all_calls():
    for npos in range(5):
        for r in range(4):
            for kws in itertools.combinations(CALL_POOL, r):
                yield npos, kws


def call_src(npos, kws, style):
    pos = [str(i + 1) for i in range(npos)]
    kw = [f"{k}={10 + j}" for j, k in enumerate(kws)]
    if style == 1 and npos:          # *-unpacking of the positional arguments
        pos = ["*[" + ", ".join(pos) + "]"]
    if style == 2 and kws:           # **-unpacking of the keywords
        kw = ["**{" + ", ".join(f"'{k}': {10 + j}" for j, k in enumerate(kws)) + "}"]
    return "f(" + ", ".join(pos + kw) + ")"


class Falsy:
    """a default value that is false (like 0, None, '', ()): whether a parameter HAS a default must not depend on its truth"""
    def __init__(self, tag):
        self.tag = tag

    def __bool__(self):
        return False

    def __repr__(self):
        return self.tag


def default_globals(sig):
    """the values of the default names D0.. / KD0..: plain numbers for half of the signatures, falsy objects for the others
    (mixed with the builtin falsy constants)"""
    npo, nn, ndef, va, kwa, kd = sig
    falsy = (npo * 7 + nn * 5 + ndef * 3 + len(kd) + sum(kd)) % 2 == 1
    G = {}
    for j in range(ndef):
        G[f"D{j}"] = Falsy(f"d{j}") if falsy else 1000 + j
    for i in range(len(kd)):
        G[f"KD{i}"] = Falsy(f"kd{i}") if falsy else 2000 + i
    return G


def canon_v(v):
    if isinstance(v, Falsy):
        return v.tag
    if isinstance(v, int):
        if v >= 2000:
            return f"kd{v - 2000}"
        if v >= 1000:
            return f"d{v - 1000}"
    return str(v)


def canon_bound(names, has_va, has_kw, res):
    """res: ('ok', dict of locals) or 'TypeError' / other exception name"""
    if isinstance(res, str):
        return res
    loc = res[1]
    slots = ",".join(f"{n}={canon_v(loc[n])}" for n in names)
    var = "[" + ",".join(str(x) for x in loc["va"]) + "]" if has_va else "-"
    kw = "{" + ",".join(f"{k}={v}" for k, v in loc["kw"].items()) + "}" if has_kw else "-"
    return f"{slots};{var};{kw}"


def gen_cases(rng, tier, search):
    sigs = list(all_sigs())
    if tier == "quick" and not search:
        rng.shuffle(sigs)
        # stratified: keep every (npo, nn, nk, va, kwa) class at least once
        seen, pick = set(), []
        for s in sigs:
            key = (s[0], s[1], len(s[5]), s[3], s[4])
            if key not in seen or rng.random() < 0.12:
                seen.add(key)
                pick.append(s)
        sigs = pick
    calls = list(all_calls())
    cases = []
    for sig in sigs:
        ssrc, names, po, no = sig_src(sig)
        try:
            compile(f"def f({ssrc}): pass", "t", "exec")
        except SyntaxError:
            continue
        cases.append(Case({"stream": "bind", "sig": ssrc, "sigt": list(sig[:5]) + [list(sig[5])], "ncalls": len(calls)}, None,
                          tags=["bind", f"po{sig[0]}", f"a{sig[1]}", f"k{len(sig[5])}"] + (["vararg"] if sig[3] else []) +
                          (["kwarg"] if sig[4] else [])))
    cases += scope_cases(rng, tier)
    return cases


# ------------------------------------------------------------------ scope stream
SCOPE_TEMPLATES = [
    ("closure-read", "def outer():\n    x = 1\n    def inner():\n        return x + 1\n    x = 5\n    return inner()\nR = outer()\n"),
    ("closure-nonlocal", "def counter():\n    n = 0\n    def inc():\n        nonlocal n\n        n += 1\n        return n\n    return inc\nc = counter()\nR = [c(), c(), counter()()]\n"),
    ("global-decl", "g = 1\ndef f():\n    global g\n    g = g + 1\n    return g\nR = [f(), f(), g]\n"),
    ("global-shadow", "g = 1\ndef f():\n    g = 10\n    return g\nR = [f(), g]\n"),
    ("unbound-local", "g = 1\ndef f():\n    y = g\n    g = 2\n    return y\ntry:\n    R = f()\nexcept NameError as e:\n    R = 'NameError-family'\n"),
    ("aug-unbound-global", "g = 1\ndef f():\n    g += 1\n    return g\ntry:\n    R = f()\nexcept NameError as e:\n    R = 'NameError-family'\nR2 = g\n"),
    ("aug-unbound-enclosing", "def outer():\n    n = 0\n    def inc():\n        n += 1\n        return n\n    try:\n        r = inc()\n    except NameError:\n        r = 'NameError-family'\n    return [r, n]\nR = outer()\n"),
    ("aug-local-ok", "def f(a):\n    a += 1\n    t = 2\n    t *= a\n    return t\nR = f(3)\n"),
    ("aug-global-decl", "g = 1\ndef f():\n    global g\n    g += 5\nf()\nR = g\n"),
    ("global-decl-shadows-enclosing", "def f2(x):\n    def f3():\n        global x\n        def f4():\n            return x\n        return f4()\n    return f3()\ntry:\n    R = f2(4)\nexcept NameError:\n    R = 'NameError-family'\n"),
    ("unbound-free", "def f():\n    def inner():\n        return zq\n    return inner()\ntry:\n    R = f()\nexcept NameError as e:\n    R = 'NameError-family'\n"),
    ("loop-closures", "def mk():\n    fs = []\n    for i in range(3):\n        def f():\n            return i\n        fs.append(f)\n    return [h() for h in fs]\nR = mk()\n"),
    ("loop-closures-default", "def mk():\n    fs = []\n    for i in range(3):\n        def f(i=i):\n            return i\n        fs.append(f)\n    return [h() for h in fs]\nR = mk()\n"),
    ("recursion", "def fact(n):\n    return 1 if n <= 1 else n * fact(n - 1)\nR = fact(6)\n"),
    ("mutual-recursion", "def ev(n):\n    return True if n == 0 else od(n - 1)\ndef od(n):\n    return False if n == 0 else ev(n - 1)\nR = [ev(4), od(4)]\n"),
    ("defaults-once", "L = []\ndef d():\n    L.append('d')\n    return 7\ndef f(a=d(), *, k=d()):\n    return (a, k)\nR = [f(), f(1), f(k=2), list(L)]\n"),
    ("mutable-default", "def f(a, acc=[]):\n    acc.append(a)\n    return list(acc)\nR = [f(1), f(2), f(3, [])]\n"),
    ("decorator-order", "L = []\ndef deco(tag):\n    L.append('make' + tag)\n    def wrap(fn):\n        L.append('apply' + tag)\n        def inner(*a, **k):\n            L.append('call' + tag)\n            return fn(*a, **k)\n        return inner\n    return wrap\n@deco('A')\n@deco('B')\ndef f(x):\n    return x * 2\nR = [f(2), f(3), list(L)]\n"),
    ("three-level", "def a():\n    x = 1\n    def b():\n        y = 2\n        def c():\n            nonlocal x\n            x += y\n            return x\n        return c\n    cc = b()\n    return [cc(), cc(), x]\nR = a()\n"),
    ("nonlocal-skip-level", "def a():\n    x = 1\n    def b():\n        def c():\n            nonlocal x\n            x = x * 3\n        c()\n        return x\n    return [b(), x]\nR = a()\n"),
    ("param-closure", "def adder(n):\n    def add(m):\n        return n + m\n    return add\nR = [adder(1)(2), adder(10)(5)]\n"),
    ("class-named-instance", "class P:\n    cnt = 0\n    def __init__(self, v):\n        self.v = v\n        P.cnt += 1\n    def get(self, k=1):\n        return self.v * k\np1 = P(2)\np2 = P(3)\nR = [p1.get(), p2.get(k=4), P.cnt]\n"),
    ("class-basic", "class P:\n    cnt = 0\n    def __init__(self, v):\n        self.v = v\n        P.cnt += 1\n    def get(self, k=1):\n        return self.v * k\nR = [P(2).get(), P(3).get(k=4), P.cnt]\n"),
    ("class-method-closure", "def mk(n):\n    class C:\n        def m(self):\n            return n\n    return C()\nc1 = mk(5)\nR = c1.m()\n"),
    ("class-inherit", "class A:\n    def f(self):\n        return 'A'\n    def g(self):\n        return self.f()\nclass B(A):\n    def f(self):\n        return 'B'\na1 = A()\nb1 = B()\nR = [a1.g(), b1.g(), isinstance(b1, A)]\n"),
    ("kwonly-required", "def f(a, *, k):\n    return (a, k)\ntry:\n    R = f(1)\nexcept TypeError:\n    R = 'TypeError'\n"),
    ("args-kwargs-pass", "def g(*a, **k):\n    return (a, sorted(k.items()))\ndef f(*a, **k):\n    return g(*a, **k)\nR = f(1, 2, x=3, y=4)\n"),
    ("global-in-nested", "cnt = 0\ndef outer():\n    def inner():\n        global cnt\n        cnt += 1\n    inner()\n    inner()\nouter()\nR = cnt\n"),
    ("del-local", "def f():\n    x = 1\n    del x\n    try:\n        return x\n    except NameError as e:\n        return isinstance(e, NameError)\nR = f()\n"),
    ("comp-in-func", "def f(n):\n    k = 2\n    return [i * k for i in range(n)]\nR = f(4)\n"),
    ("builtin-shadow", "def f():\n    len = lambda q: 42\n    return len([1])\nR = [f(), len([1])]\n"),
    ("return-none", "def f():\n    x = 1\nR = f()\n"),
    ("lambda-global", "k = 3\nf = lambda q: q * k\nR = f(2)\n"),
    ("lambda-closure", "def mk(n):\n    return lambda q: q + n\ntry:\n    R = mk(1)(2)\nexcept NameError as e:\n    R = type(e).__name__\n", "native-closure"),
    ("lambda-in-comp", "try:\n    R = [f() for f in [lambda: i for i in range(3)]]\nexcept NameError as e:\n    R = type(e).__name__\n", "native-closure"),
    ("annassign-closure", "def f():\n    v: int = 3\n    def g():\n        return v\n    return g()\nR = f()\n"),
    ("annassign-shadow", "v = 1\ndef f():\n    def g():\n        return v\n    v: int = 3\n    return g()\nR = f()\n"),
    ("list-target-closure", "def f():\n    [a, *b] = 1, 2, 3\n    def g():\n        return (a, b)\n    return g()\nR = f()\n"),
    ("global-unexecuted", "g = 1\ndef f(flag):\n    if flag:\n        global g\n    g = 5\n    return g\nR = [f(False), g]\n"),
    ("comp-var-not-local", "x = 1\ndef f():\n    r = [x for x in range(3)]\n    return x\nR = f()\n"),
    ("comp-var-keeps-cell", "def f():\n    x = 10\n    def g():\n        return x\n    r = [x for x in range(3)]\n    return (x, g(), r)\nR = f()\n"),
    ("comp-iter-uses-var", "def f():\n    x = [1, 2]\n    def g():\n        return x\n    r = [x for x in x]\n    return (x, g(), r)\nR = f()\n"),
    ("nonlocal-before-bind", "def outer():\n    def setx():\n        nonlocal x\n        x = 5\n    setx()\n    y = x\n    x = 0\n    return y\nR = outer()\n"),
    ("del-then-inner-sets", "def outer():\n    x = 1\n    def setx():\n        nonlocal x\n        x = 5\n    del x\n    setx()\n    return x\nR = outer()\n"),
    ("handler-cell", "def f():\n    e = 1\n    def g():\n        return e\n    try:\n        raise ValueError(1)\n    except ValueError as e:\n        pass\n    e = 5\n    return g()\nR = f()\n"),
    ("handler-del", "def f():\n    try:\n        raise ValueError(1)\n    except ValueError as e:\n        del e\n    return 3\nR = f()\n"),
    ("import-closure", "def f():\n    import math as m\n    def g():\n        return m.floor(2.5)\n    return g()\ntry:\n    R = f()\nexcept NameError:\n    R = 'NameError-family'\n"),
    ("dynamic-scope-leak", "x = 'global'\ndef P():\n    def F():\n        return x\n    return F()\ndef Q():\n    x = 'q-local'\n    def dummy():\n        return x\n    return P()\nR = Q()\n"),
    ("comp-var-declared-global", "x = 1\ndef f():\n    global x\n    r = [x for x in (5, 6)]\n    return x\nR = [f(), x]\n", "comp-var-declared-global"),
    ("del-missing-global", "x = 1\ndef f():\n    global x\n    del x\nf()\ntry:\n    f()\n    R = 'no error'\nexcept NameError:\n    R = 'NameError'\n", "del-missing-global"),
    ("handler-declared-global", "y = 0\ndef f():\n    global y\n    try:\n        raise ValueError(3)\n    except ValueError as y:\n        r = y.args\n    return r\nR = f()\n"),
    ("class-body-call-then-method", "def deco(fn):\n    return fn\ndef mk(n):\n    class C:\n        @deco\n        def first(self):\n            return n\n        def second(self):\n            return n + 1\n    return C()\nc1 = mk(5)\nR = [c1.first(), c1.second()]\n"),
    ("class-body-call-then-nonlocal", "def helper(q):\n    return q\ndef mk():\n    count = 0\n    class C:\n        tag = helper(5)\n        def bump(self):\n            nonlocal count\n            count += 1\n            return count\n    c1 = C()\n    return [c1.bump(), c1.bump(), count, C.tag]\nR = mk()\n"),
    ("class-then-nested-def", "def helper(q):\n    return q\ndef mk(n):\n    class C:\n        tag = helper(1)\n    def after():\n        return n\n    return [after(), C.tag]\nR = mk(7)\n"),
    ("dup-keyword-splat-first", "def f(**kw):\n    return kw\ntry:\n    R = f(**{'a': 1}, a=2)\nexcept TypeError:\n    R = 'TypeError'\n"),
    ("dup-keyword-splat-first-positional", "def g(p, **kw):\n    return (p, kw)\ntry:\n    R = g(1, **{'c': 1}, c=2)\nexcept TypeError:\n    R = 'TypeError'\n"),
    ("dup-keyword-method", "class O:\n    def m(self, **kw):\n        return kw\no1 = O()\ntry:\n    R = o1.m(**{'x': 1}, x=2)\nexcept TypeError:\n    R = 'TypeError'\n"),
    ("falsy-kwonly-defaults", "def f(a, *, k=0, m=None, n=False, s='', t=(), u=[]):\n    return (a, k, m, n, s, t, u)\nR = [f(1), f(1, k=5), f(2, u=[1])]\n"),
    ("falsy-positional-defaults", "def f(a=0, b=None, c='', /, d=False, e=()):\n    return (a, b, c, d, e)\nR = [f(), f(1), f(1, 2, 3, 4, 5)]\n"),
    ("compiled-in-function-closure", "def outer():\n    @pyscript_compile\n    def twice(q):\n        return q * 2\n    def use():\n        return twice(4)\n    return use()\ntry:\n    R = outer()\nexcept NameError:\n    R = 'NameError-family'\n"),
    ("compiled-in-function-method", "def outer():\n    @pyscript_compile\n    def twice(q):\n        return q * 2\n    class K:\n        def m(self):\n            return twice(5)\n    return K().m()\ntry:\n    R = outer()\nexcept NameError:\n    R = 'NameError-family'\n"),
    ("compiled-module-level", "@pyscript_compile\ndef twice(q):\n    return q * 2\ndef use():\n    return twice(4)\nR = use()\n"),
    ("class-staticmethod", "class A:\n    @staticmethod\n    def s(x):\n        return x * 2\na1 = A()\nR = (A.s(2), a1.s(3))\n"),
    ("class-attr-vs-instance", "class A:\n    n = 0\n    def inc(self):\n        self.n += 1\n        return self.n\na1 = A()\na2 = A()\nR = (a1.inc(), a1.inc(), a2.inc(), A.n)\n"),
    ("method-all-parameter-kinds", "class A:\n    def m(self, a, b=2, *c, d=4, **e):\n        return (a, b, c, d, e)\na1 = A()\nR = (a1.m(1), a1.m(1, 3, 5, d=6, z=7))\n"),
    ("bound-method-as-value", "class A:\n    def m(self, x):\n        return x + 1\na1 = A()\nf = a1.m\nR = (f(1), [f(i) for i in range(2)], A.m(a1, 5))\n"),
    ("explicit-super", "class A:\n    def f(self):\n        return 'A'\nclass B(A):\n    def f(self):\n        return 'B' + super(B, self).f()\nclass C(B):\n    pass\nR = C().f()\n"),
    ("zero-arg-super", "class A:\n    def f(self):\n        return 'A'\nclass B(A):\n    def f(self):\n        return 'B' + super().f()\ntry:\n    R = B().f()\nexcept RuntimeError:\n    R = 'RuntimeError'\n", "zero-arg-super"),
    ("classmethod-descriptor", "class A:\n    k = 5\n    @classmethod\n    def c(cls, x):\n        return cls.k + x\ntry:\n    R = A.c(1)\nexcept TypeError:\n    R = 'TypeError'\n", "classmethod-property-descriptor"),
    ("property-descriptor", "class A:\n    def __init__(self):\n        self._v = 1\n    @property\n    def v(self):\n        return self._v + 10\ntry:\n    R = A().v\nexcept TypeError:\n    R = 'TypeError'\n", "classmethod-property-descriptor"),
    ("class-closure-counter", "def mk():\n    n = 0\n    class C:\n        def inc(self):\n            nonlocal n\n            n += 1\n            return n\n    return C\nK = mk()\nk1 = K()\nk2 = K()\nR = (k1.inc(), k2.inc(), k1.inc())\n"),
    ("decorated-method", "def tag(t):\n    def w(fn):\n        def inner(self, *a):\n            return (t, fn(self, *a))\n        return inner\n    return w\nclass A:\n    @tag('x')\n    def m(self, v):\n        return v\nR = A().m(3)\n"),
    ("default-evaluated-at-def", "k = 1\ndef f(a=k):\n    return a\nk = 2\nR = f()\n"),
    ("kwargs-is-a-copy", "def f(**kw):\n    kw['z'] = 1\n    return kw\nd = {'a': 1}\nR = (f(**d), d)\n"),
    ("nested-def-same-name", "def f():\n    def f():\n        return 2\n    return f() + 1\nR = f()\n"),
    ("function-redefined", "def f():\n    return 1\ng1 = f\ndef f():\n    return 2\nR = (g1(), f())\n"),
    ("too-many-args-to-method", "class A:\n    def m(self):\n        return 1\ntry:\n    R = A().m(1)\nexcept TypeError:\n    R = 'TypeError'\n"),
    ("init-keyword-default", "class A:\n    def __init__(self, v=3):\n        self.v = v\nR = (A().v, A(4).v, A(v=5).v)\n"),
    ("class-in-class", "class A:\n    class B:\n        z = 4\n    def g(self):\n        return A.B.z\nR = (A.B.z, A().g())\n"),
    ("isinstance-mro", "class A:\n    pass\nclass B(A):\n    pass\nb1 = B()\nR = (isinstance(b1, A), type(b1).__name__, issubclass(B, A), B.__mro__[1].__name__)\n"),
    ("keywords-named-like-interpreter-parameters", "def f(**kw):\n    return sorted(kw)\nclass A:\n    def m(self, **kw):\n        return sorted(kw)\nR = [f(self=1, func=2, func_name=3, ast_ctx=4), A().m(func=2, ast_ctx=4, args=5, kwargs=6)]\n"),
    ("posonly-kwargs", "def f(p, /, **kw):\n    return (p, kw)\ntry:\n    R = f(1, p=2)\nexcept TypeError:\n    R = 'TypeError'\n", "posonly-name-in-kwargs"),
    ("lambda-kwonly-default-loop", "fs = []\nfor i in range(3):\n    fs.append(lambda *, k=T('kd', i): k * 10)\nR = [f() for f in fs]\n"),
    ("lambda-defaults-in-function-loop", "def mk(n):\n    fs = []\n    for i in range(n):\n        fs.append(lambda a, b=T('d', i), *, k=T('kd', i + 1): (a, b, k))\n    return [f(100) for f in fs]\nR = mk(3)\nR2 = mk(2)\n"),
    ("lambda-kwonly-default-factory", "def adder(n):\n    return lambda q, *, inc=T('inc', n): q + inc\na1 = adder(1)\na2 = adder(5)\nR = [a1(10), a2(10), a1(10, inc=2)]\n"),
    ("comp-iter-unbound-free", "x = 5\ndef outer():\n    def inner():\n        try:\n            return [x for x in (x, 1)]\n        except NameError:\n            return 'NameError-family'\n    r = inner()\n    x = 1\n    return r\nR = outer()\n", "comp-iter-unbound-free"),
    ("inherited-init", "class A:\n    def __init__(self, x):\n        self.x = x\nclass B(A):\n    pass\ntry:\n    R = B(3).x\nexcept TypeError:\n    R = 'TypeError'\n", "inherited-init"),
    ("inherited-init-two-levels", "class A:\n    def __init__(self, x):\n        self.x = x\nclass B(A):\n    def m(self):\n        return self.x + 1\nclass C(B):\n    pass\ntry:\n    R = (C(3).m(), B(x=5).x)\nexcept TypeError:\n    R = 'TypeError'\n", "inherited-init"),
    ("class-body-raises", "def f():\n    y = 5\n    try:\n        class K:\n            z = 1 // 0\n    except ZeroDivisionError:\n        pass\n    return y\nR = f()\n", "class-body-raises"),
    ("class-body-raises-module", "y = 7\ntry:\n    class K:\n        z = 1 // 0\nexcept ZeroDivisionError:\n    pass\ndef h():\n    return y\nR = [y, h()]\n", "class-body-raises"),
    ("class-forward-ref", "def chk(o):\n    return isinstance(o, A)\nclass A:\n    pass\na1 = A()\nR = [chk(a1), chk(3)]\n", "class-forward-ref"),
    ("class-forward-ref-in-function", "def outer():\n    def chk(o):\n        return isinstance(o, A)\n    class A:\n        pass\n    return [chk(A()), chk(3)]\ntry:\n    R = outer()\nexcept NameError:\n    R = 'NameError-family'\n", "class-forward-ref"),
    ("explicit-base-init", "class A:\n    def __init__(self, x):\n        self.x = x\nclass B(A):\n    def __init__(self, x, y):\n        A.__init__(self, x)\n        self.y = y\ntry:\n    R = (B(3, 4).x, B(3, 4).y)\nexcept TypeError:\n    R = 'TypeError'\n", "explicit-base-init"),
]


class ScopeGen:
    """random nested-function programs over the variables x, y (every read goes through the tracer)"""

    def __init__(self, rng):
        self.rng = rng
        self.n = itertools.count(1)

    def func(self, depth, enclosing_locals, depth_nested=False):
        rng = self.rng
        name = f"f{next(self.n)}"
        params = rng.sample(["x", "y"], rng.randrange(0, 3))
        body = []
        decl = None
        locs = set(params)
        r = rng.random()
        if r < 0.25 and depth_nested:
            # any name: programs whose enclosing functions never bind it are SyntaxErrors and are discarded
            v = rng.choice(sorted(enclosing_locals)) if enclosing_locals and rng.random() < 0.7 else rng.choice(["x", "y"])
            if v not in params:
                decl = ("nonlocal", v)
        elif r < 0.45:
            v = rng.choice(["x", "y"])
            if v not in params:
                decl = ("global", v)
        if decl:
            if decl[0] == "global" and rng.random() < 0.3:
                body += ["if T('never', 0):", f"    {decl[0]} {decl[1]}"]   # a declaration counts even when not executed
            else:
                body.append(f"{decl[0]} {decl[1]}")
        nstm = rng.randrange(1, 5)
        inner_defs = []
        for _ in range(nstm):
            k = rng.random()
            v = rng.choice(["x", "y"])
            if k < 0.3:
                body.append(f"{v} = T('{name}.set{v}', {rng.randrange(10)})")
                if not decl or decl[1] != v:
                    locs.add(v)
            elif k < 0.42:
                body.append(f"{v} = T('{name}.inc{v}', {v} + 1)")
                if not decl or decl[1] != v:
                    locs.add(v)
            elif k < 0.5:
                # an augmented assignment makes the name local too (UnboundLocalError when it only exists outside)
                body.append(f"{v} += T('{name}.aug{v}', 1)")
                if not decl or decl[1] != v:
                    locs.add(v)
            elif k < 0.56:
                # the other binding forms: each makes the name a local of this function (or binds the declared global)
                form = rng.randrange(8)
                tag = f"'{name}.b{form}{v}'"
                if form == 0:
                    body += [f"for {v} in (T({tag}, {rng.randrange(10)}),):", "    pass"]
                elif form == 1:
                    body.append(f"[{v}, *_r] = (T({tag}, {rng.randrange(10)}), 0)")
                elif form == 2:
                    body.append(f"{v}: int = T({tag}, {rng.randrange(10)})")
                elif form == 3:
                    body += [f"with CM(T({tag}, {rng.randrange(10)})) as {v}:", "    pass"]
                elif form == 4:
                    body.append(f"T({tag}, ({v} := {rng.randrange(10)}))")
                elif form == 5:
                    body += ["try:", f"    raise ValueError(T({tag}, {rng.randrange(10)}))", f"except ValueError as {v}:",
                             f"    T('{name}.h{v}', {v}.args)"]
                elif form == 6:
                    body += ["try:", f"    del {v}", "except NameError:", f"    T('{name}.delfail{v}')"]
                else:
                    # a comprehension variable is NOT a local of the function
                    body.append(f"T({tag}, [{v} for {v} in (1, {rng.randrange(2, 9)})])")
                    form = None
                if form is not None and (not decl or decl[1] != v):
                    locs.add(v)
            elif k < 0.75:
                body.append(f"T('{name}.read{v}', {v})")
            elif k < 0.81 and depth_nested is not None and not getattr(self, "no_classes", False):
                # a class inside the function: its body calls a script function (a helper defined just before), and methods
                # defined before and after that call use the variables of the enclosing function (class scope is skipped)
                cn = f"K{next(self.n)}"
                hn = f"h{next(self.n)}"
                w = rng.choice(["x", "y"])
                m2 = [f"        return T('{cn}.m2', {w})"]
                if rng.random() < 0.4 and (w in locs) and not (decl and decl[1] == w):
                    m2 = [f"        nonlocal {w}", f"        {w} = T('{cn}.m2set', {rng.randrange(10)})", f"        return {w}"]
                body += [f"def {hn}(q):", "    return q",
                         f"class {cn}:",
                         f"    def m1(self):", f"        return T('{cn}.m1', {v})",
                         f"    tag = {hn}(T('{cn}.tag', {rng.randrange(10)}))",
                         f"    def m2(self):"] + ["    " + l[4:] if False else l for l in m2] + [
                         f"T('{name}.k1', {cn}().m1())", f"T('{name}.k2', {cn}().m2())", f"T('{name}.k3', {cn}.tag)"]
                locs |= {cn, hn}
            elif depth > 0:
                sub_name, sub_src, sub_params = self.func(depth - 1, locs | enclosing_locals, True)
                body.extend(sub_src)
                args = ", ".join(str(rng.randrange(5)) for _ in sub_params)
                inner_defs.append((sub_name, args))
                if rng.random() < 0.7:
                    body.append(f"T('{name}.call', {sub_name}({args}))")
        for sub_name, args in inner_defs:
            if rng.random() < 0.5:
                body.append(f"T('{name}.call2', {sub_name}({args}))")
        body.append(f"return T('{name}.ret', {rng.choice(['x', 'y', '0'])})")
        src = [f"def {name}({', '.join(params)}):"] + ["    " + l for l in body]
        return name, src, params

    def program(self):
        rng = self.rng
        lines = []
        if rng.random() < 0.7:
            lines.append(f"x = {rng.randrange(10)}")
        if rng.random() < 0.7:
            lines.append(f"y = {rng.randrange(10)}")
        name, src, params = self.func(rng.choice([1, 2, 2, 3]), set())
        lines += src
        args = ", ".join(str(rng.randrange(5)) for _ in params)
        lines.append(f"R = {name}({args})")
        lines.append(f"R2 = {name}({args})")
        return "\n".join(lines) + "\n"


class CellGen:
    """random programs of the Lean statement language that exercise the life cycle of closure cells beyond ScopeGen:
    inner functions returned and called after their activation ended (two closures of one activation, closures of two
    activations), recursion, nested defs inside except / try / if bodies, del of shared variables, reads of unbound shared
    variables caught and continued, comprehensions whose iterable and element read the variables"""

    VARS = ["x", "y"]

    def __init__(self, rng):
        self.rng = rng
        self.n = itertools.count(1)

    def simple(self, v=None):
        rng = self.rng
        v = v or rng.choice(self.VARS)
        return rng.choice([str(rng.randrange(10)), v, v, f"{v} + {rng.randrange(1, 4)}"])

    def stmt(self, name, depth, locs, decl, closures):
        """-> list of source lines"""
        rng = self.rng
        v = rng.choice(self.VARS)
        k = rng.random()

        def bind():
            if not decl or decl[1] != v:
                locs.add(v)
        if k < 0.16:
            bind()
            return [f"{v} = T('{name}.set{v}', {rng.randrange(10)})"]
        if k < 0.24:
            bind()
            return [f"{v} = T('{name}.inc{v}', {v} + 1)"]
        if k < 0.30:
            bind()
            return [f"{v} += T('{name}.aug{v}', 1)"]
        if k < 0.42:
            return [f"T('{name}.read{v}', {v})"]
        if k < 0.50:
            bind()
            if rng.random() < 0.7:
                return ["try:", f"    del {v}", "except NameError:", f"    T('{name}.delfail{v}')"]
            return [f"del {v}"]
        if k < 0.56:
            bind()
            body = [f"T('{name}.h{v}', {v}.args)"]
            if depth > 0 and rng.random() < 0.5:
                body += self.nested(name, depth, locs, decl, closures)        # a def inside the except clause
            return ["try:", f"    raise ValueError(T('{name}.raise{v}', {rng.randrange(10)}))", f"except ValueError as {v}:"] + \
                ["    " + l for l in body]
        if k < 0.64:
            w = rng.choice(self.VARS)
            its = ", ".join(self.simple() for _ in range(rng.randrange(1, 4)))
            elt = rng.choice([v, v, f"{v} + 1", w])
            return [f"T('{name}.comp{v}', [{elt} for {v} in ({its},)])"]
        if k < 0.70:
            body = self.stmt(name, 0, locs, decl, closures) if rng.random() < 0.6 or depth == 0 else self.nested(name, depth, locs, decl, closures)
            return [f"if T('{name}.if{v}', {self.simple(v)}):"] + ["    " + l for l in body]
        if k < 0.76:
            body = []
            for _ in range(rng.randrange(1, 3)):
                body += self.stmt(name, depth, locs, decl, closures)
            return ["try:"] + ["    " + l for l in body] + ["except NameError:", f"    T('{name}.caught')"]
        if k < 0.84 and closures:
            c, npar = rng.choice(closures)
            args = ", ".join(str(rng.randrange(4)) for _ in range(npar if rng.random() < 0.93 else npar + 1))
            return [f"T('{name}.use{c}', {c}({args}))"]
        if depth > 0:
            return self.nested(name, depth, locs, decl, closures)
        return [f"T('{name}.read{v}', {v})"]

    def nested(self, name, depth, locs, decl, closures):
        """a nested definition of one of three kinds, and what the enclosing function does with it"""
        rng = self.rng
        kind = rng.choice(["plain", "plain", "factory", "rec"])
        if kind == "plain":
            sub, src, npar = self.func(depth - 1, locs, True)
            locs.add(sub)
            closures.append((sub, npar))
            out = list(src)
            if rng.random() < 0.7:
                args = ", ".join(str(rng.randrange(4)) for _ in range(npar))
                out.append(f"T('{name}.call', {sub}({args}))")
            return out
        if kind == "factory":
            mk, c = f"mk{next(self.n)}", f"c{next(self.n)}"
            inner, isrc, npar = self.func(max(depth - 2, 0), locs | {"x", "y"}, True)
            body = []
            lv = set()
            for v in rng.sample(self.VARS, rng.randrange(0, 3)):
                body.append(f"{v} = T('{mk}.set{v}', {rng.randrange(10)})")
                lv.add(v)
            body += isrc
            if rng.random() < 0.3:
                body.append(f"T('{mk}.pre', {inner}({', '.join('0' for _ in range(npar))}))")
            body.append(f"return {inner}")
            out = [f"def {mk}():"] + ["    " + l for l in body]
            args = ", ".join(str(rng.randrange(4)) for _ in range(npar))
            out += [f"{c} = {mk}()", f"T('{name}.{c}a', {c}({args}))", f"T('{name}.{c}b', {c}({args}))"]
            locs |= {mk, c}
            closures.append((c, npar))
            if rng.random() < 0.5:
                c2 = f"c{next(self.n)}"
                out += [f"{c2} = {mk}()", f"T('{name}.{c2}a', {c2}({args}))", f"T('{name}.{c}c', {c}({args}))"]
                locs.add(c2)
                closures.append((c2, npar))
            return out
        rec = f"r{next(self.n)}"
        v = rng.choice(self.VARS)
        body = [f"T('{rec}.n', n)"]
        if rng.random() < 0.5:
            body.append(f"{v} = T('{rec}.set{v}', n + 1)")
        else:
            body += [f"nonlocal {v}", f"{v} = T('{rec}.nl{v}', {v} + 1)"] if v in locs and not (decl and decl[1] == v) else [f"T('{rec}.read{v}', {v})"]
        if rng.random() < 0.5:
            body += [f"def g{rec}():", f"    return T('g{rec}.{v}', {v})"]
            after = [f"T('{rec}.after', g{rec}())"]
        else:
            after = [f"T('{rec}.after{v}', {v})"]
        body += ["if n:", f"    T('{rec}.down', {rec}(n + -1))"] + after + [f"return T('{rec}.ret', n)"]
        locs.add(rec)
        closures.append((rec, 1))
        return [f"def {rec}(n):"] + ["    " + l for l in body] + [f"T('{name}.rec', {rec}({rng.randrange(1, 4)}))"]

    def func(self, depth, enclosing_locals, nested=False):
        rng = self.rng
        name = f"f{next(self.n)}"
        params = rng.sample(self.VARS, rng.randrange(0, 3))
        locs = set(params)
        decl = None
        r = rng.random()
        if r < 0.25 and nested:
            v = rng.choice(sorted(enclosing_locals & set(self.VARS))) if (enclosing_locals & set(self.VARS)) and rng.random() < 0.8 else rng.choice(self.VARS)
            if v not in params:
                decl = ("nonlocal", v)
        elif r < 0.4:
            v = rng.choice(self.VARS)
            if v not in params:
                decl = ("global", v)
        body = [f"{decl[0]} {decl[1]}"] if decl else []
        closures = []
        for _ in range(rng.randrange(1, 6)):
            body += self.stmt(name, depth, locs, decl, closures)
        body.append(f"return T('{name}.ret', {rng.choice(['x', 'y', '0'])})")
        return name, [f"def {name}({', '.join(params)}):"] + ["    " + l for l in body], len(params)

    def program(self):
        rng = self.rng
        lines = []
        for v in self.VARS:
            if rng.random() < 0.7:
                lines.append(f"{v} = {rng.randrange(10)}")
        name, src, npar = self.func(rng.choice([1, 2, 2, 3]), set())
        args = ", ".join(str(rng.randrange(5)) for _ in range(npar))
        return "\n".join(lines + src + [f"R = {name}({args})", f"R2 = {name}({args})"]) + "\n"


class ClassGen:
    """random small class programs along the dimensions the hand-written templates missed: which level of an
    inheritance chain defines __init__ (none / base / middle / leaf) x how the leaf is instantiated; a class body that
    raises inside a try of the enclosing scope, followed by reads / calls / assignments there; functions defined BEFORE a
    class that use the class by name once it exists (module level and inside a function)"""

    def __init__(self, rng):
        self.rng = rng

    def inherit(self):
        rng = self.rng
        depth = rng.choice([2, 2, 3])
        init_at = rng.choice([None, 0, 0, 0, 1, depth - 1])
        nparam = rng.randrange(0, 3)
        ps = ["a", "b"][:nparam]
        lines, feats = [], ["class-gen", "inherit"]
        for i in range(depth):
            base = f"(A{i - 1})" if i else ""
            lines.append(f"class A{i}{base}:")
            body = []
            if init_at == i:
                sig = ", ".join(["self"] + [p + ("=7" if p == "b" and rng.random() < 0.5 else "") for p in ps])
                body += [f"    def __init__({sig}):", f"        self.v = T('A{i}.init', ({', '.join(ps)}{',' if len(ps) == 1 else ''}))"]
            if rng.random() < 0.6:
                body += [f"    def m{i}(self):", f"        return T('A{i}.m', getattr(self, 'v', None))"]
            if rng.random() < 0.3:
                body += [f"    k{i} = T('A{i}.k', {rng.randrange(9)})"]
            lines += body or ["    pass"]
        if init_at is not None and init_at < depth - 1:
            feats.append("inherited-init")
        leaf = f"A{depth - 1}"
        for j in range(rng.randrange(1, 4)):
            nargs = rng.choice([nparam, nparam, max(0, nparam - 1), nparam + 1])
            args = ", ".join(str(rng.randrange(9)) for _ in range(nargs))
            cls = rng.choice([leaf, leaf, f"A{rng.randrange(depth)}"])
            lines += ["try:", f"    o{j} = {cls}({args})", f"    T('o{j}', sorted(vars(o{j}).items()))",
                      "except TypeError:", f"    T('o{j}', 'TypeError')"]
        lines.append("R = 0")
        return "\n".join(lines) + "\n", feats

    def body_raises(self):
        rng = self.rng
        in_func = rng.random() < 0.7
        closure = in_func and rng.random() < 0.5
        exc, stmt = rng.choice([("ZeroDivisionError", "w = 1 // 0"), ("NameError", "w = undefined_zq"), ("KeyError", "w = {}['k']")])
        body = [f"y = {rng.randrange(9)}"]
        if closure:
            body += ["def g():", "    return T('g', y)"]
        cb = [f"    z = T('K.z', {rng.randrange(9)})"] if rng.random() < 0.5 else []
        if rng.random() < 0.4:
            cb += ["    def m(self):", "        return 1"]
        body += ["try:", "    class K:"] + ["    " + l for l in cb] + [f"        {stmt}", f"except {exc}:", "    T('caught', y)"]
        body += [f"y2 = T('after', y + {rng.randrange(3)})"]
        if closure:
            body += ["T('g-call', g())"]
        if rng.random() < 0.5:
            body += ["class L:", "    q = T('L.q', y2)", "T('L', L.q)"]
        if in_func:
            src = ["def f():"] + ["    " + l for l in body] + ["    return T('ret', (y, y2))", "R = f()", "R2 = T('mod', R)"]
        else:
            src = body + ["def h():", "    return T('h', y)", "R = [y, y2, h()]"]
        return "\n".join(src) + "\n", ["class-gen", "class-body-raises"]

    def forward_ref(self):
        rng = self.rng
        use = rng.choice(["isinstance(o, A)", "type(o) is A", "A.k", "A().m()", "issubclass(A, A)", "[A][0] is A", "A is not None"])
        in_func = rng.random() < 0.4
        body = ["def chk(o):", f"    return T('chk', {use})", "class A:", f"    k = {rng.randrange(9)}", "    def m(self):", "        return T('A.m', self.k)"]
        if rng.random() < 0.3:
            body += ["class B(A):", "    pass", "T('b', chk(B()))"]
        body += ["T('r1', chk(A()))", "T('r2', chk(3))"]
        if in_func:
            src = ["def outer():"] + ["    " + l for l in body] + ["    return 0", "try:", "    R = outer()", "except NameError:", "    R = 'NameError-family'"]
        else:
            src = body + ["R = 0"]
        return "\n".join(src) + "\n", ["class-gen", "class-forward-ref"]

    def program(self):
        return self.rng.choice([self.inherit, self.inherit, self.body_raises, self.forward_ref])()


class LambdaGen:
    """lambda expressions with positional / keyword-only defaults (each default goes through the tracer) that are
    evaluated several times: in a loop at module level, in a loop inside a function called twice, or by a factory"""

    def __init__(self, rng):
        self.rng = rng

    def program(self):
        rng = self.rng
        npos, nd, nk = rng.randrange(0, 3), rng.randrange(0, 3), rng.randrange(0, 3)
        if nd + nk == 0:
            nk = 1
        ps = [f"a{j}" for j in range(npos)] + [f"d{j}=T('d{j}', i + {j})" for j in range(nd)]
        if nk:
            ps.append("*")
            ps += [f"k{j}=T('k{j}', i * {j + 2})" for j in range(nk)]
        names = [f"a{j}" for j in range(npos)] + [f"d{j}" for j in range(nd)] + [f"k{j}" for j in range(nk)]
        lam = f"lambda {', '.join(ps)}: ({', '.join(names)},)"
        args = ", ".join(str(rng.randrange(9)) for _ in range(npos))
        over = ""
        if nk and rng.random() < 0.5:
            over = (", " if args else "") + f"k{rng.randrange(nk)}=99"
        place = rng.choice(["module-loop", "function-loop", "factory", "comprehension"])
        n = rng.randrange(2, 4)
        if place == "module-loop":
            src = ["fs = []", f"for i in range({n}):", f"    fs.append({lam})", f"R = [f({args}) for f in fs]", f"R2 = [f({args}{over}) for f in fs]"]
        elif place == "function-loop":
            src = ["def mk(n):", "    fs = []", "    for i in range(n):", f"        fs.append({lam})",
                   f"    return [f({args}{over}) for f in fs]", f"R = mk({n})", "R2 = mk(2)"]
        elif place == "factory":
            src = ["def mk(i):", f"    return {lam}", f"g1 = mk({rng.randrange(5)})", f"g2 = mk({rng.randrange(5, 9)})",
                   f"R = [g1({args}), g2({args}{over}), g1({args})]"]
        else:
            src = [f"fs = [{lam} for i in range({n})]", f"R = [f({args}{over}) for f in fs]"]
        return "\n".join(src) + "\n", ["lambda-gen", place]


def pep709_quirk(src):
    """CPython 3.12 inlines comprehensions (PEP 709); in 3.12.1 a name that is ONLY a comprehension variable in a function
    but is also used free by a function or class nested in that function is resolved by the nested scope to the (unbound)
    inlined variable instead of the enclosing binding the language reference prescribes.  Such programs would make CPython
    a wrong oracle, so the generator does not emit them."""
    import ast
    tree = ast.parse(src)
    for fn in ast.walk(tree):
        if not isinstance(fn, (ast.FunctionDef, ast.AsyncFunctionDef)):
            continue
        comps = [n for n in own_nodes(fn) if isinstance(n, (ast.ListComp, ast.SetComp, ast.DictComp, ast.GeneratorExp))]
        if not comps:
            continue
        inside = {id(m) for c in comps for m in ast.walk(c)}
        targets = {m.id for c in comps for g in c.generators for m in ast.walk(g.target) if isinstance(m, ast.Name)}
        bound_outside = {n.id for n in own_nodes(fn) if isinstance(n, ast.Name) and isinstance(n.ctx, ast.Store) and id(n) not in inside}
        bound_outside |= set(fn_params(fn))
        only = targets - bound_outside
        if not only:
            continue
        for n in own_nodes(fn):
            if isinstance(n, (ast.FunctionDef, ast.AsyncFunctionDef, ast.ClassDef)):
                used = {m.id for m in ast.walk(n) if isinstance(m, ast.Name)}
                used |= {v for m in ast.walk(n) if isinstance(m, (ast.Nonlocal, ast.Global)) for v in m.names}
                if used & only:
                    return True
    return False


def scope_cases(rng, tier):
    out = []
    for t in SCOPE_TEMPLATES:
        feats = [t[0]] + ([t[2]] if len(t) > 2 else [])
        out.append(Case({"stream": "scope", "src": t[1], "features": feats}, None, tags=["scope"] + feats))
    n = 500 if tier == "quick" else 6000
    seen = set()
    for _ in range(n * 3):
        if len(seen) >= n:
            break
        src = ScopeGen(rng).program()
        if src in seen:
            continue
        try:
            compile(src, "t", "exec")
        except SyntaxError:
            continue
        if pep709_quirk(src):
            continue
        seen.add(src)
        out.append(Case({"stream": "scope", "src": src, "features": ["random-nesting"]}, None, tags=["scope", "random-nesting"]))
    ncell = 300 if tier == "quick" else 4000
    seen_g = set()
    for _ in range(ncell * 3):
        if len(seen_g) >= ncell:
            break
        src = CellGen(rng).program()
        if src in seen or src in seen_g:
            continue
        try:
            compile(src, "t", "exec")
        except SyntaxError:
            continue
        if pep709_quirk(src) or cells_translate(src) is None:
            continue
        seen_g.add(src)
        out.append(Case({"stream": "scope", "src": src, "features": ["random-nesting", "cell-gen"]}, None,
                        tags=["scope", "random-nesting", "cell-gen"]))
    ncls, seen_c = (90 if tier == "quick" else 900), set()
    for _ in range(ncls * 3):
        if len(seen_c) >= ncls:
            break
        src, feats = ClassGen(rng).program()
        if src in seen_c:
            continue
        seen_c.add(src)
        out.append(Case({"stream": "scope", "src": src, "features": feats}, None, tags=["scope"] + feats))
    nlam, seen_l = (40 if tier == "quick" else 400), set()
    for _ in range(nlam * 3):
        if len(seen_l) >= nlam:
            break
        src, feats = LambdaGen(rng).program()
        if src in seen_l:
            continue
        seen_l.add(src)
        out.append(Case({"stream": "scope", "src": src, "features": feats}, None, tags=["scope"] + feats))
    return out


# ------------------------------------------------------------------ running
def fam(name):
    """the property compares exception FAMILIES: UnboundLocalError is a NameError"""
    return "NameError" if name == "UnboundLocalError" else name


def mk_T(log):
    def T(tag, val=None):
        log.append(f"{tag}={val!r}")
        return val
    return T


def canon_res(G, exc, log):
    if exc is not None:
        return ";".join(log) + "|exc:" + fam(type(exc).__name__)
    vals = {k: v for k, v in G.items() if k in ("R", "R2", "x", "y", "g", "cnt") and not callable(v)}
    return ";".join(log) + "|" + ",".join(f"{k}={vals[k]!r}" for k in sorted(vals))


# ------------------------------------------------------------------ static name resolution (names stream)
_COMP_NAMES = {"listcomp", "setcomp", "dictcomp", "genexpr", "lambda"}


def install_probe(records):
    """record what EvalFunc.resolve_nonlocals decided, read off the interpreter's own tables"""
    from custom_components.pyscript import eval as ev
    orig = getattr(ev.EvalFunc, "resolve_nonlocals", None)
    if orig is None:
        # the observation point is gone (a refactoring?): the tie of parts (b)/(c) cannot be checked – reported as a
        # broken correspondence, never as a crash or a violation by itself
        records.append({"probe_error": "EvalFunc.resolve_nonlocals not found"})
        return lambda: None

    async def wrapped(self, ast_ctx):
        await orig(self, ast_ctx)
        try:
            observe(self, ast_ctx)
        except Exception as e:  # pylint: disable=broad-except
            records.append({"probe_error": f"{type(e).__name__}: {e}"})

    def observe(self, ast_ctx):
        tables = list(reversed(ast_ctx.sym_table_stack + [ast_ctx.sym_table]))
        parent = ast_ctx.curr_func
        pwhere = getattr(parent, "_verif_where", {}) if parent is not None else {}
        where = {}
        for v in sorted(set(self.local_names or ()) | set(self.local_sym_table) | set(self.global_names) | {"x", "y"}):
            if "." in v:
                continue
            if v in self.global_names:
                where[v] = "global"
                continue
            cell = self.local_sym_table.get(v)
            idx = None
            if cell is not None:
                idx = next((i for i, t in enumerate(tables) if t.get(v) is cell), None)
            if idx is not None:
                # the owner of a shared cell: the enclosing function if the cell is its own local, else the owner IT recorded
                pw = pwhere.get(v)
                if idx == 0 and pw == "local":
                    where[v] = "cell1"
                elif idx == 0 and pw and pw.startswith("cell"):
                    where[v] = f"cell{1 + int(pw[4:])}"
                else:
                    where[v] = f"callers-table{idx}"        # not a lexically enclosing binding
            elif cell is not None or v in (self.local_names or ()):
                where[v] = "local"
            else:
                where[v] = "global"
        self._verif_where = where
        records.append({"name": self.func_def.name, "lineno": self.func_def.lineno,
                        "locals": sorted(n for n in (self.local_names or ()) if "." not in n), "where": where})

    ev.EvalFunc.resolve_nonlocals = wrapped
    return lambda: setattr(ev.EvalFunc, "resolve_nonlocals", orig)


def tgt_sx(t):
    import ast
    if isinstance(t, ast.Name):
        return t.id
    if isinstance(t, ast.Tuple):
        return ["tuple"] + [tgt_sx(e) for e in t.elts]
    if isinstance(t, ast.List):
        return ["list"] + [tgt_sx(e) for e in t.elts]
    if isinstance(t, ast.Starred):
        return ["starred", tgt_sx(t.value)]
    return "other"


def stmts_sx(nodes):
    """normal form of a function body for the Lean binding model: (kind (targets) (nested nodes)), not crossing a def;
    nodes that carry no targets are replaced by their children"""
    import ast
    out = []
    for n in nodes:
        kind, tgts, cross = "plain", [], True
        if isinstance(n, ast.Assign):
            kind, tgts = "assign", n.targets
        elif isinstance(n, ast.AugAssign):
            kind, tgts = "aug", [n.target]
        elif isinstance(n, ast.AnnAssign):
            kind, tgts = "ann", [n.target]
        elif isinstance(n, (ast.For, ast.AsyncFor)):
            kind, tgts = "for", [n.target]
        elif isinstance(n, (ast.With, ast.AsyncWith)):
            kind, tgts = "with", [i.optional_vars for i in n.items if i.optional_vars is not None]
        elif isinstance(n, ast.NamedExpr):
            kind, tgts = "walrus", [n.target]
        elif isinstance(n, ast.ExceptHandler):
            kind, tgts = "handler", ([ast.Name(id=n.name, ctx=ast.Store())] if n.name else [])
        elif isinstance(n, (ast.FunctionDef, ast.AsyncFunctionDef)):
            kind, tgts, cross = "def", [ast.Name(id=n.name, ctx=ast.Store())], False
        elif isinstance(n, ast.ClassDef):
            kind, tgts, cross = "class", [ast.Name(id=n.name, ctx=ast.Store())], False
        elif isinstance(n, ast.Lambda):
            cross = False
        elif isinstance(n, ast.Delete):
            kind, tgts = "del", n.targets
        elif isinstance(n, (ast.Import, ast.ImportFrom)):
            kind = "import"
            tgts = [ast.Name(id=(a.asname or a.name.split(".")[0]), ctx=ast.Store()) for a in n.names if a.name != "*"]
        elif isinstance(n, (ast.ListComp, ast.SetComp, ast.DictComp, ast.GeneratorExp)):
            kind, tgts = "comp", [g.target for g in n.generators]
        nested = stmts_sx(list(ast.iter_child_nodes(n))) if cross else []
        if kind == "plain" or not tgts:
            out.extend(nested)
        else:
            out.append([kind, [tgt_sx(t) for t in tgts], nested])
    return out


def own_nodes(fn):
    import ast
    stack = list(fn.body)
    while stack:
        n = stack.pop()
        yield n
        if not isinstance(n, (ast.FunctionDef, ast.AsyncFunctionDef, ast.Lambda, ast.ClassDef)):
            stack.extend(ast.iter_child_nodes(n))


def fn_params(fn):
    a = fn.args
    return [p.arg for p in a.posonlyargs + a.args + a.kwonlyargs] + ([a.vararg.arg] if a.vararg else []) + \
        ([a.kwarg.arg] if a.kwarg else [])


def names_analysis(src, records):
    """-> (driver lines, line kinds, expected outputs, static comparison problems)"""
    import ast
    import symtable
    tree = ast.parse(src)
    errs = [r["probe_error"] for r in records if "probe_error" in r]
    if errs:
        return ["C03 " + sx(["probe-failed"])], [("raw", None)], ["probe-ok (the interpreter's tables could not be read: " + errs[0][:120] + ")"], []
    if any(isinstance(n, ast.ClassDef) for n in ast.walk(tree)):
        return [], [], [], []
    # function definitions with their chains of enclosing functions (innermost first)
    fns = {}

    def walk(node, chain):
        for ch in ast.iter_child_nodes(node):
            if isinstance(ch, (ast.FunctionDef, ast.AsyncFunctionDef)):
                fns[(ch.name, ch.lineno)] = (ch, chain)
                walk(ch, [ch] + chain)
            elif not isinstance(ch, ast.Lambda):
                walk(ch, chain)
    walk(tree, [])
    tabs = {}

    def walk_t(t, chain):
        for ch in t.get_children():
            if ch.get_type() == "function" and ch.get_name() not in _COMP_NAMES:
                tabs[(ch.get_name(), ch.get_lineno())] = (ch, chain)
                walk_t(ch, [ch] + chain)
            else:
                walk_t(ch, chain)
    walk_t(symtable.symtable(src, "t", "exec"), [])

    def cpy_binds(t):
        return sorted(sy.get_name() for sy in t.get_symbols() if sy.is_assigned() or sy.is_imported() or sy.is_parameter())

    def cpy_where(t, chain, v):
        try:
            sy = t.lookup(v)
        except KeyError:
            return None
        if sy.is_global():
            return "global"
        if sy.is_free():
            for d, e in enumerate(chain, 1):
                try:
                    s2 = e.lookup(v)
                except KeyError:
                    continue
                if s2.is_local():
                    return f"cell{d}"
            return "global"
        return "local"

    obs = {}
    for r in records:
        key = (r["name"], r["lineno"])
        if key in fns:
            prev = obs.setdefault(key, r)
            if prev["where"] != r["where"] or prev["locals"] != r["locals"]:
                # definitions executed several times may capture at different times; keep the first, note nothing
                pass

    def scope_of(fn, binds):
        decl_g = sorted({v for n in own_nodes(fn) if isinstance(n, ast.Global) for v in n.names})
        decl_n = sorted({v for n in own_nodes(fn) if isinstance(n, ast.Nonlocal) for v in n.names})
        mentions = sorted({n.id for n in own_nodes(fn) if isinstance(n, ast.Name)} | set(decl_g) | set(decl_n) |
                          {n.name for n in own_nodes(fn) if isinstance(n, (ast.FunctionDef, ast.AsyncFunctionDef))})
        return [fn_params(fn), [b for b in binds], decl_g, decl_n, mentions]

    def comp_only(fn):
        """names that occur in fn's own body only inside comprehensions and are comprehension targets there: CPython 3.12
        inlines comprehensions and then lists such variables among the function's symbols although they stay isolated"""
        comps = [n for n in own_nodes(fn) if isinstance(n, (ast.ListComp, ast.SetComp, ast.DictComp, ast.GeneratorExp))]
        inside = {id(m) for c in comps for m in ast.walk(c)}
        targets = {m.id for c in comps for g in c.generators for m in ast.walk(g.target) if isinstance(m, ast.Name)}
        outside = {n.id for n in own_nodes(fn) if isinstance(n, ast.Name) and id(n) not in inside}
        outside |= {v for n in own_nodes(fn) if isinstance(n, (ast.Global, ast.Nonlocal)) for v in n.names}
        return targets - outside - set(fn_params(fn))

    lines, kinds, exp, problems = [], [], [], []
    for key, r in sorted(obs.items()):
        fn, chain = fns[key]
        if key not in tabs or any((e.name, e.lineno) not in obs for e in chain):
            continue
        t, tchain = tabs[key]
        # (c) the local names
        body_sx = stmts_sx(fn.body)
        conly = comp_only(fn)
        ps_loc = sorted(set(r["locals"]))
        cp_loc = [b for b in cpy_binds(t) if b not in conly]
        params = set(fn_params(fn))
        lines.append("C03 " + sx(["locals", body_sx]))
        kinds.append(("locals", sorted(params)))
        exp.append(f"model={','.join(ps_loc)} spec={','.join(cp_loc)}")
        if ps_loc != cp_loc:
            problems.append(f"{key[0]}: local names {ps_loc}, Python binds {cp_loc}")
        # (b) where each mentioned name lives
        own_mentions = {n.id for n in own_nodes(fn) if isinstance(n, ast.Name)} | \
            {v for n in own_nodes(fn) if isinstance(n, (ast.Global, ast.Nonlocal)) for v in n.names}
        for v in sorted(own_mentions & {"x", "y"} | (own_mentions & set(r["where"]) - {"T", "CM"})):
            cw = cpy_where(t, tchain, v)
            pw = r["where"].get(v)
            if cw is None or pw is None or v in conly:
                continue
            if pw != cw:
                problems.append(f"{key[0]}: name {v} resolves to {pw}, Python: {cw}")
            ps_chain = [scope_of(e, [b for b in obs[(e.name, e.lineno)]["locals"] if b not in fn_params(e)]) for e in chain]
            lines.append("C03 " + sx(["resolve", v, scope_of(fn, [b for b in r["locals"] if b not in params]), ps_chain]))
            kinds.append(("m", None))
            exp.append(f"model={pw}")
            cp_chain = [scope_of(e, [b for b in cpy_binds(te) if b not in fn_params(e) and b not in comp_only(e)])
                        for e, te in zip(chain, tchain)]
            lines.append("C03 " + sx(["resolve", v, scope_of(fn, [b for b in cp_loc if b not in params]), cp_chain]))
            kinds.append(("s", None))
            exp.append(f"spec={cw}")
    return lines, kinds, exp, problems


def project(kind, out):
    """the part of a driver answer that a names line is compared on"""
    k, params = kind
    m = re.match(r"model=(\S*) spec=(\S*)$", out)
    if not m:
        return out
    if k == "m":
        return f"model={m.group(1)}"
    if k == "s":
        return f"spec={m.group(2)}"
    if k == "locals":
        add = lambda part: ",".join(sorted(set(filter(None, part.split(","))) | set(params)))
        return f"model={add(m.group(1))} spec={add(m.group(2))}"
    return out


# ------------------------------------------------------------------ cells stream: programs of the Lean statement language
class NotInLanguage(Exception):
    pass


def _cs_simple(e):
    import ast
    if isinstance(e, ast.Constant) and e.value is None:
        return "nil"
    if isinstance(e, ast.Constant) and type(e.value) is int:
        return ["lit", e.value]
    if isinstance(e, ast.UnaryOp) and isinstance(e.op, ast.USub) and isinstance(e.operand, ast.Constant) and type(e.operand.value) is int:
        return ["lit", -e.operand.value]
    if isinstance(e, ast.Name):
        return ["var", e.id]
    if isinstance(e, ast.BinOp) and isinstance(e.op, ast.Add) and isinstance(e.left, ast.Name):
        r = _cs_simple(e.right)
        if isinstance(r, list) and r[0] == "lit":
            return ["addv", e.left.id, r[1]]
    return None


def _cs_expr(e):
    import ast
    s = _cs_simple(e)
    if s is not None:
        return s
    if isinstance(e, ast.BinOp) and isinstance(e.op, ast.Add) and isinstance(e.right, ast.Constant) and type(e.right.value) is int:
        return ["add", _cs_expr(e.left), e.right.value]
    if isinstance(e, ast.Call) and not e.keywords:
        if isinstance(e.func, ast.Name) and e.func.id == "T":
            if len(e.args) in (1, 2) and isinstance(e.args[0], ast.Constant) and isinstance(e.args[0].value, str):
                return ["T", e.args[0].value, _cs_expr(e.args[1]) if len(e.args) == 2 else "nil"]
            raise NotInLanguage("T call")
        args = [_cs_simple(a) for a in e.args]
        if any(a is None for a in args):
            raise NotInLanguage("call argument")
        return ["call", _cs_expr(e.func), args]
    if isinstance(e, ast.ListComp) and len(e.generators) == 1:
        g = e.generators[0]
        if isinstance(g.target, ast.Name) and not g.ifs and not g.is_async and isinstance(g.iter, ast.Tuple):
            its = [_cs_simple(a) for a in g.iter.elts]
            elt = _cs_simple(e.elt)
            if elt is not None and all(a is not None for a in its):
                return ["comp", g.target.id, its, elt]
        raise NotInLanguage("comprehension shape")
    if isinstance(e, ast.Attribute) and e.attr == "args":
        return ["args", _cs_expr(e.value)]
    raise NotInLanguage(type(e).__name__)


def _cs_stmts(body):
    import ast
    out = []
    for n in body:
        if isinstance(n, ast.Pass):
            continue
        if isinstance(n, ast.Global):
            out += [["global", v] for v in n.names]
        elif isinstance(n, ast.Nonlocal):
            out += [["nonlocal", v] for v in n.names]
        elif isinstance(n, ast.If) and not n.orelse:
            out.append(["if", _cs_expr(n.test), _cs_stmts(n.body)])
        elif isinstance(n, ast.Assign) and len(n.targets) == 1 and isinstance(n.targets[0], ast.Name):
            out.append(["assign", n.targets[0].id, _cs_expr(n.value)])
        elif isinstance(n, ast.AnnAssign) and isinstance(n.target, ast.Name) and n.value is not None:
            out.append(["assign", n.target.id, _cs_expr(n.value)])
        elif isinstance(n, ast.AugAssign) and isinstance(n.target, ast.Name) and isinstance(n.op, ast.Add):
            out.append(["aug", n.target.id, _cs_expr(n.value)])
        elif isinstance(n, ast.For) and isinstance(n.target, ast.Name) and isinstance(n.iter, ast.Tuple) and len(n.iter.elts) == 1 \
                and not n.orelse and all(isinstance(b, ast.Pass) for b in n.body):
            out.append(["assign", n.target.id, _cs_expr(n.iter.elts[0])])          # one iteration = one assignment
        elif isinstance(n, ast.With) and len(n.items) == 1 and isinstance(n.items[0].optional_vars, ast.Name) and \
                isinstance(n.items[0].context_expr, ast.Call) and isinstance(n.items[0].context_expr.func, ast.Name) and \
                n.items[0].context_expr.func.id == "CM" and len(n.items[0].context_expr.args) == 1 and \
                all(isinstance(b, ast.Pass) for b in n.body):
            out.append(["assign", n.items[0].optional_vars.id, _cs_expr(n.items[0].context_expr.args[0])])
        elif isinstance(n, ast.Expr):
            out.append(["expr", _cs_expr(n.value)])
        elif isinstance(n, ast.Delete) and all(isinstance(t, ast.Name) for t in n.targets):
            out += [["del", t.id] for t in n.targets]
        elif isinstance(n, ast.Return) and n.value is not None:
            out.append(["ret", _cs_expr(n.value)])
        elif isinstance(n, ast.FunctionDef) and not n.decorator_list and not n.args.defaults and not n.args.kwonlyargs and \
                not n.args.posonlyargs and not n.args.vararg and not n.args.kwarg:
            out.append(["def", n.name, [a.arg for a in n.args.args], _cs_stmts(n.body)])
        elif isinstance(n, ast.Try) and not n.orelse and not n.finalbody and len(n.handlers) == 1:
            h = n.handlers[0]
            if isinstance(h.type, ast.Name) and h.type.id == "ValueError" and h.name and len(n.body) == 1 and \
                    isinstance(n.body[0], ast.Raise) and isinstance(n.body[0].exc, ast.Call) and \
                    isinstance(n.body[0].exc.func, ast.Name) and n.body[0].exc.func.id == "ValueError" and len(n.body[0].exc.args) == 1 \
                    and n.body[0].cause is None:
                out.append(["handler", h.name, _cs_expr(n.body[0].exc.args[0]), _cs_stmts(h.body)])
            elif isinstance(h.type, ast.Name) and h.type.id == "NameError" and h.name is None:
                out.append(["tryne", _cs_stmts(n.body), _cs_stmts(h.body)])
            else:
                raise NotInLanguage("try shape")
        else:
            raise NotInLanguage(type(n).__name__)
    return out


def cells_translate(src):
    """the program as an S-expression of the Lean statement language, or None when it is outside the language:
    module = integer globals, ONE function definition, `R = f(ints…)`, `R2 = f(ints…)`"""
    import ast
    try:
        tree = ast.parse(src)
        ginit, fn, calls = [], None, []
        for n in tree.body:
            if isinstance(n, ast.Assign) and len(n.targets) == 1 and isinstance(n.targets[0], ast.Name):
                t = n.targets[0].id
                if fn is None and isinstance(n.value, ast.Constant) and type(n.value.value) is int:
                    ginit.append([t, n.value.value])
                    continue
                if fn is not None and t == ("R", "R2")[len(calls)] if len(calls) < 2 else False:
                    c = n.value
                    if isinstance(c, ast.Call) and isinstance(c.func, ast.Name) and c.func.id == fn.name and not c.keywords and \
                            all(isinstance(a, ast.Constant) and type(a.value) is int for a in c.args):
                        calls.append([a.value for a in c.args])
                        continue
                raise NotInLanguage("module assignment")
            if isinstance(n, ast.FunctionDef) and fn is None:
                fn = n
                continue
            raise NotInLanguage("module statement")
        if fn is None or len(calls) != 2 or calls[0] != calls[1] or len({k for k, _ in ginit}) != len(ginit):
            raise NotInLanguage("module shape")
        d = _cs_stmts([fn])
        if len(d) != 1 or d[0][0] != "def":
            raise NotInLanguage("function shape")
        return ["cells", ["ginit"] + ginit, d[0], ["args"] + calls[0], ["watch", "x", "y"]]
    except (NotInLanguage, SyntaxError, RecursionError):
        return None


async def ps_exec(src, G):
    import interp_env
    G.setdefault("__name__", "c03")          # a non-empty table: GlobalContext replaces an empty dict by a new one
    g, a = interp_env.new_ctx("c03", G)
    a.parse(src)
    await a.eval()


async def run_scope(src):
    import contextlib
    out = []
    records = []
    for impl in ("ps", "cpy"):
        log = []
        G = {"T": mk_T(log), "CM": contextlib.nullcontext}
        exc = None
        try:
            if impl == "ps":
                undo = install_probe(records)
                try:
                    await ps_exec(src, G)
                finally:
                    undo()
            else:
                G["pyscript_compile"] = lambda fn: fn      # for CPython the decorator is the identity
                exec(compile(src, "t", "exec"), G)  # pylint: disable=exec-used
        except BaseException as e:  # pylint: disable=broad-except
            exc = e
        out.append(canon_res(G, exc, log))
    try:
        lines, kinds, exp, problems = names_analysis(src, records)
    except SyntaxError:
        lines, kinds, exp, problems = [], [], [], []
    t = cells_translate(src)
    if t is not None:
        # the program is in the Lean statement language: the cell model must reproduce pyscript's run (tie) and the
        # reference must reproduce CPython's (reference validated)
        lines, kinds, exp = list(lines), list(kinds), list(exp)
        lines.append("C03 " + sx(t))
        kinds.append(("cells", None))
        exp.append(f"model={out[0].replace(' ', '_')} spec={out[1].replace(' ', '_')}")
    return out[0], out[1], lines, kinds, exp, problems


def bind_program(ssrc, names, has_va, has_kw, calls):
    ret = "{" + ", ".join(f"'{n}': {n}" for n in names + (["va"] if has_va else []) + (["kw"] if has_kw else [])) + "}"
    lines = [f"def f({ssrc}):", f"    return {ret}", "R = []"]
    for npos, kws, style in calls:
        lines += ["try:", f"    R.append(('ok', {call_src(npos, kws, style)}))", "except TypeError:",
                  "    R.append('TypeError')", "except Exception as e:", "    R.append(type(e).__name__)"]
    return "\n".join(lines) + "\n"


async def run_bind(payload):
    sig = tuple(payload["sigt"][:5]) + (tuple(payload["sigt"][5]),)
    ssrc, names, po, no = sig_src(sig)
    calls = [(npos, kws, (npos + len(kws)) % 3) for npos, kws in all_calls()]
    src = bind_program(ssrc, names, sig[3], sig[4], calls)
    res = {}
    for impl in ("ps", "cpy"):
        G = default_globals(sig)
        try:
            if impl == "ps":
                await ps_exec(src, G)
            else:
                exec(compile(src, "t", "exec"), G)  # pylint: disable=exec-used
            res[impl] = [canon_bound(names, sig[3], sig[4], r) for r in G["R"]]
        except BaseException as e:  # pylint: disable=broad-except
            res[impl] = [f"program-raised:{type(e).__name__}"] * len(calls)
    lines = []
    for npos, kws, _style in calls:
        lines.append("C03 " + sx(["bind", po, no, sig[2], [[f"k{i}", d] for i, d in enumerate(sig[5])], sig[3], sig[4],
                                  [i + 1 for i in range(npos)], [[k, 10 + j] for j, k in enumerate(kws)]]))
    return res["ps"], res["cpy"], lines, [call_src(n, k, s) for n, k, s in calls]


def _worker(payloads):
    import interp_env
    loop = asyncio.new_event_loop()
    asyncio.set_event_loop(loop)
    interp_env.setup_stub(loop)
    out = []
    for p in payloads:
        if p["stream"] == "bind":
            out.append(loop.run_until_complete(run_bind(p)))
        else:
            out.append(loop.run_until_complete(run_scope(p["src"])))
    loop.close()
    return out


def run_impl(cases):
    payloads = [c.payload for c in cases]
    nshard = 12
    shards = [payloads[i::nshard] for i in range(nshard)]
    res = common.pmap(_worker, shards, workers=nshard, chunk=1) if len(payloads) > 60 else [_worker(s) for s in shards]
    for si, shard in enumerate(res):
        for j, r in enumerate(shard):
            c = cases[si + j * nshard]
            if c.payload["stream"] == "bind":
                ps, cpy, lines, csrcs = r
                c.payload["pyscript"], c.payload["cpython"], c.payload["calls"] = ps, cpy, csrcs
                c.line = lines
                c.impl = " ".join(f"model={a} spec={b}" for a, b in zip(ps, cpy))
            else:
                ps, cpy, lines, kinds, exp, problems = r
                c.payload["pyscript"], c.payload["cpython"] = ps, cpy
                c.payload["static_problems"] = problems
                if lines:
                    c.line, c.payload["line_kinds"] = lines, kinds
                    c.impl = " ".join(exp)
                else:
                    c.impl = None


def _execute(mod, cases, br):
    """bind cases carry one driver line per call shape"""
    run_impl(cases)
    lines, owners = [], []
    for c in cases:
        if isinstance(c.line, list):
            for l in c.line:
                lines.append(l)
                owners.append(c)
    outs = common.drive(lines) if (br.driver_ok and common.DRV.exists()) else ["err driver-not-built"] * len(lines)
    acc = {}
    for o, c in zip(outs, owners):
        acc.setdefault(id(c), []).append(o)
    for c in cases:
        if isinstance(c.line, list):
            outs_c = acc.get(id(c), [])
            if c.payload["stream"] == "scope":
                kinds = c.payload.pop("line_kinds")
                outs_c = [project(k, o) for k, o in zip(kinds, outs_c)]
                if kinds and kinds[-1][0] == "cells" and outs_c:
                    c.payload["cells"] = "in-language"
                    if outs_c[-1].count("|exc:UNSUPPORTED") == 2:
                        # a value of a type the statement language has no counterpart for (e.g. a list of exception
                        # objects) was computed: both columns stop there; the program is outside the language
                        c.payload["cells"] = "unsupported-value"
                        outs_c[-1] = c.impl.split(" ")[-2] + " " + c.impl.split(" ")[-1]
                c.payload["names_lines"] = c.line[:40]
                c.line = f"{len(c.line)} driver lines (local names per function, resolution per function and name)"
            else:
                c.line = f"{len(c.line)} driver lines (one per call shape)"
            c.model = " ".join(outs_c)
            c.payload["model_lines"] = outs_c


_orig_execute = common._execute
common._execute = lambda mod, cases, br: _execute(mod, cases, br) if mod.PROP == PROP else _orig_execute(mod, cases, br)


def expected(c):
    """the property's oracle: CPython's result, except that reserved trigger keywords which no parameter accepts are
    dropped (the documented intended deviation): then it is CPython's result for the call without them"""
    cpy = c.payload["cpython"]
    has_kw = c.payload["sigt"][4]
    shapes = list(all_calls())
    index = {sh: i for i, sh in enumerate(shapes)}
    out = []
    for i, (npos, kws) in enumerate(shapes):
        if TRIGGER_KW in kws and not has_kw:
            out.append(cpy[index[(npos, tuple(k for k in kws if k != TRIGGER_KW))]])
        else:
            out.append(cpy[i])
    return out


def first_diff(c):
    ps, exp = c.payload["pyscript"], expected(c)
    for i, (a, b) in enumerate(zip(ps, exp)):
        if a != b:
            return i
    return None


def verdict(c):
    if c.payload["stream"] == "scope":
        if c.payload["pyscript"] != c.payload["cpython"]:
            return f"pyscript {c.payload['pyscript'][:300]!r} != CPython {c.payload['cpython'][:300]!r}"
        if c.payload.get("static_problems"):
            return "static name resolution differs from Python's: " + "; ".join(c.payload["static_problems"][:3])
        return None
    i = first_diff(c)
    if i is None:
        return None
    return (f"def f({c.payload['sig']}) called {c.payload['calls'][i]}: pyscript {c.payload['pyscript'][i]} != "
            f"expected {expected(c)[i]}")


def global_decl_shadows_enclosing(src):
    """syntactic feature of finding C03-F4: some function declares `global v`, an enclosing function binds v, and a
    function nested inside the declaring one reads v without binding it"""
    import ast
    try:
        tree = ast.parse(src)
    except SyntaxError:
        return False

    def binds(fn):
        names = {a.arg for a in fn.args.args + fn.args.posonlyargs + fn.args.kwonlyargs}
        for n in ast.walk(fn):
            if isinstance(n, ast.Name) and isinstance(n.ctx, ast.Store):
                names.add(n.id)
        return names

    def own_nodes(fn):
        """nodes of fn's body that are not inside a nested def"""
        stack = list(fn.body)
        while stack:
            n = stack.pop()
            yield n
            if not isinstance(n, (ast.FunctionDef, ast.AsyncFunctionDef, ast.Lambda)):
                stack.extend(ast.iter_child_nodes(n))

    def visit(fn, enclosing_bound):
        decl = {v for n in own_nodes(fn) if isinstance(n, ast.Global) for v in n.names}
        own = {a.arg for a in fn.args.args + fn.args.posonlyargs + fn.args.kwonlyargs}
        own |= {n.id for n in own_nodes(fn) if isinstance(n, ast.Name) and isinstance(n.ctx, ast.Store)}
        inner = [n for n in own_nodes(fn) if isinstance(n, (ast.FunctionDef, ast.AsyncFunctionDef))]
        for v in decl & enclosing_bound:
            for g in inner:
                for h in [g] + [x for x in ast.walk(g) if isinstance(x, (ast.FunctionDef, ast.AsyncFunctionDef)) and x is not g]:
                    reads = {n.id for n in own_nodes(h) if isinstance(n, ast.Name) and isinstance(n.ctx, ast.Load)}
                    hb = {a.arg for a in h.args.args} | {n.id for n in own_nodes(h) if isinstance(n, ast.Name) and isinstance(n.ctx, ast.Store)}
                    hdecl = {v2 for n in own_nodes(h) if isinstance(n, (ast.Global, ast.Nonlocal)) for v2 in n.names}
                    if v in reads and v not in hb and v not in hdecl:
                        return True
        for g in inner:
            if visit(g, (enclosing_bound | own) - decl):
                return True
        return False

    for top in tree.body:
        if isinstance(top, (ast.FunctionDef, ast.AsyncFunctionDef)) and visit(top, set()):
            return True
    return False


def comp_var_declared_global(src):
    """syntactic feature of finding C03-F13: a function declares `global v` and its own body has a comprehension over v"""
    import ast
    try:
        tree = ast.parse(src)
    except SyntaxError:
        return False
    for fn in ast.walk(tree):
        if not isinstance(fn, (ast.FunctionDef, ast.AsyncFunctionDef)):
            continue
        decl = {v for n in own_nodes(fn) if isinstance(n, ast.Global) for v in n.names}
        for n in own_nodes(fn):
            if isinstance(n, (ast.ListComp, ast.SetComp, ast.DictComp)):
                for g in n.generators:
                    if decl & {m.id for m in ast.walk(g.target) if isinstance(m, ast.Name)}:
                        return True
    return False


def comp_iter_reads_own_var(src):
    """syntactic feature of finding C03-F17: a comprehension whose first iterable reads a name that is also its loop variable"""
    import ast
    try:
        tree = ast.parse(src)
    except SyntaxError:
        return False
    for n in ast.walk(tree):
        if isinstance(n, (ast.ListComp, ast.SetComp, ast.DictComp)):
            g = n.generators[0]
            tg = {m.id for m in ast.walk(g.target) if isinstance(m, ast.Name)}
            if tg & {m.id for m in ast.walk(g.iter) if isinstance(m, ast.Name)}:
                return True
    return False


def del_declared_global(src):
    """syntactic feature of finding C03-F12: a function declares `global v` and deletes v"""
    import ast
    try:
        tree = ast.parse(src)
    except SyntaxError:
        return False
    for fn in ast.walk(tree):
        if isinstance(fn, (ast.FunctionDef, ast.AsyncFunctionDef)):
            decl = {v for n in own_nodes(fn) if isinstance(n, ast.Global) for v in n.names}
            if any(isinstance(n, ast.Delete) and any(isinstance(t, ast.Name) and t.id in decl for t in n.targets) for n in own_nodes(fn)):
                return True
    return False


# signatures of defects for which a `fix:` patch is prepared (notes/fixes_pending/): excused only while the finding is
# still listed as open in findings.d/C03.json; once it is `fixed` the check reports them again
PENDING_FIX_SIGNATURES = ("comp-iter-unbound-free", "inherited-init", "class-body-raises", "class-forward-ref")


def classify(c, reason):
    if c.payload["stream"] == "scope":
        f = list(c.payload.get("features", []))
        if "random-nesting" in f and comp_var_declared_global(c.payload["src"]):
            f.append("comp-var-declared-global")
        if "random-nesting" in f and del_declared_global(c.payload["src"]):
            f.append("del-missing-global")
        if "random-nesting" in f and comp_iter_reads_own_var(c.payload["src"]):
            f.append("comp-iter-unbound-free")
        for k in ("native-closure", "comp-var-declared-global", "del-missing-global", "zero-arg-super",
                  "classmethod-property-descriptor", "explicit-base-init") + PENDING_FIX_SIGNATURES:   # open findings
            if k in f:
                return k
        return "scope:" + "+".join(f)
    # bind: explain every differing call shape; known only if ALL of them are of a known kind and reproduced by the model
    ps, exp, calls = c.payload["pyscript"], expected(c), c.payload["calls"]
    ml = c.payload.get("model_lines", [])
    kinds = set()
    for i, (a, b) in enumerate(zip(ps, exp)):
        if a == b:
            continue
        m = re.match(r"model=(\S*) spec=", ml[i]) if i < len(ml) else None
        if not m or m.group(1) != a:
            return "bind-unmodelled"
        call = calls[i]
        has_kw = c.payload["sigt"][4]
        names_po = [f"p{j}" for j in range(c.payload["sigt"][0])]
        return "bind-other:" + ("posonly-name-in-kwargs" if has_kw and any(
            re.search(rf"\b{p}=|'{p}':", call) for p in names_po) else "unclassified")
    return "+".join(sorted(kinds))


def replay_cases(obj):
    p = obj["case"]
    if p.get("stream") == "bind":
        return [Case({"stream": "bind", "sig": p["sig"], "sigt": p["sigt"], "ncalls": p.get("ncalls", 0)}, None)]
    return [Case({"stream": "scope", "src": p["src"], "features": p.get("features", [])}, None)]


def extra_coverage(cases):
    nb = sum(c.payload.get("ncalls", 0) for c in cases if c.payload["stream"] == "bind")
    return {"bind_signatures": sum(1 for c in cases if c.payload["stream"] == "bind"), "bind_call_pairs": nb,
            "scope_programs": sum(1 for c in cases if c.payload["stream"] == "scope"),
            "cells_programs_model_vs_impl": sum(1 for c in cases if c.payload.get("cells") == "in-language"),
            "cells_programs_unsupported_value": sum(1 for c in cases if c.payload.get("cells") == "unsupported-value")}
