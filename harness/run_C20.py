"""C20 correspondence + property oracle: real requirements.py on real temp directories vs the Lean model.

impl  = the real `install_requirements` / `process_all_requirements` (files on disk, `installed_version` and
        `async_process_requirements` patched to a fake site-packages + index, stub hass / config entry)
model = PsModel.C20.runOnce via verifdrv;  spec = PsModel.C20.specTable (order-free selection)
verdict = an independent Python oracle (packaging.version) for the property itself.  The oracle states the intended
        behaviour and never looked at the code: a line counts only as `name` or `name==<valid version>` with a plain
        name; malformed / empty / sentinel pins and ~= != >= <= > < , lines are ignored.  /repo does exactly that since
        the fix: commits e2ec6b7 + d07dfc5 + 5d02a52 (findings C20-F1..F4, now "fixed": nothing excuses them any
        more).  A pin with a version epoch (p==1!2.0) is a valid pin: recorded in every order.
"""
import asyncio
import copy
import glob
import itertools
import json
import logging
import os
import re
import shutil
import tempfile
import types
from unittest.mock import patch

import common
from common import Case, sx, parse_sx

PROP = "C20"
RULE = ("(perm) multisets of 2-4 requirement lines for 1-2 packages, EVERY permutation of the lines over the line slots of "
        "1-2 files or - one line per file - of 2-4 files of different selected directories plus an empty and a comment-only "
        "file (and the DESIGN / finding witnesses); (hist) up to 6 requirements.txt files in selected and decoy directories "
        "(empty, comment-only, CRLF / CR line ends, no final newline), up to 6 lines each for up to 5 packages drawn from: "
        "pinned valid (releases, epochs, pre / post / dev releases, local versions, the spellings packaging normalises, a "
        "blank before the version), unpinned, pinned malformed, comment / blank / padded (space, tab, FF, VT) lines, >= <= > "
        "< , forms, several ==, ~= != ===, and - rarely - other spellings of a package name (case, - _ .), extras, markers, "
        "pip option lines, URLs, blanks around ==; random installed / recorded (also under another spelling) / index / "
        "allow_all_imports, 1-3 consecutive runs with external site changes and edited or unchanged files in between; "
        "(combo) one package, all installed x recorded x required x allow_all x (index knows it | installer fails), three "
        "runs with allow_all_imports toggled in the middle; (sweep) every odd line form alone / next to a pin x package "
        "absent / host-installed / recorded, files with a byte-order mark / CRLF / CR / no final newline / empty / comments "
        "only, one package required from all 8 selected directories; (ver) all pairs of the version pool against "
        "packaging.version.  After every run the data handed to async_update_entry (what Home Assistant stores) is compared "
        "with the in-memory entry.  Non-trivial = at least one line that parses; distinct by payload.")
ASSUMPTIONS = [
    "packaging.version.Version order is a total preorder; on the generator's version pool it coincides with numVer "
    "(checked pairwise by the `ver` cases, ~5600 pairs)",
    "importlib.metadata.version(name) looks the distribution up under its PEP 503 normal form, returns the installed version, "
    "raises PackageNotFoundError when absent (also for a string that is not a distribution name) and ValueError for an "
    "empty name (the fake site does the same)",
    "Home Assistant's async_process_requirements tries every requirement, keeps the ones that installed and raises "
    "RequirementsNotFound afterwards if one failed (homeassistant/requirements.py _install_requirements_if_missing); "
    "`name[extras]==v` installs `name` iff v is a version, `name[extras]` iff the index knows it, anything that is not a "
    "distribution name (option, URL, marker, blanks) fails",
    "config_entry.data is a read-only mapping (MappingProxyType as in Home Assistant); what is passed to "
    "async_update_entry is what is stored",
    "files are read in text mode with universal newlines (CRLF / CR / LF all end a line); the file listing order inside "
    "one directory pattern is taken from the real run (the model is told the order, not the reason for it)",
    "only ASCII blanks (space, tab, FF, VT) pad lines; a line that is not a plain name is expected to be IGNORED by the "
    "oracle (the documented format is `name` or `name==version`), `p == 1.0` with blanks around == included",
    "version strings are drawn from a fixed pool of PEP 440 forms (numVer parses exactly this grammar)",
]
TRUSTED = ["tools/extract.py (REQUIREMENTS_PATHS, UNPINNED_VERSION)", "harness/run_C20.py (fake site, oracle, canonicalisation)",
           "modelled not verified: packaging.version, glob, importlib.metadata, Home Assistant's installer"]

UNP = "_unpinned_version"
BOM = "\ufeff"
NAMES = ["p", "q", "r", "s"]
# spellings of ONE package (PEP 503: case and runs of - _ . are insignificant); the first one is the normal form
VARIANTS = {"my-pkg": ["my-pkg", "My_Pkg", "my.pkg", "MY-PKG", "my__pkg", "my-.pkg"], "p": ["p", "P"], "q2": ["q2", "Q2"]}
CORE = ["1", "1.0", "1.0.0", "2.0", "1.5", "0.9", "10.0", "1.10", "1.9", "2", "01.0", "0", "0.0.1", "3.2.1",
        "1!2.0", "0!1.5", "1!0.1", "2!0"]                       # with an epoch: a lone '!' is NOT a specifier
# boundary values of PEP 440: pre / post / dev releases, local versions, the spellings packaging normalises
EXT = ["1.0a1", "1.0b2", "1.0rc1", "1.0.dev3", "1.0.post1", "1.0a1.dev2", "1.0.post1.dev0", "1.0.dev0", "2.0.0rc2",
       "1.0+abc", "1.0+abc.5", "1.0+5", "1.0+ubuntu.1", "1.0.0+local", "1.0rc1+b7", "1.0RC1", "1.0-alpha.1", "1.0c1",
       "1.0pre1", "1.0-1", "1.0_post2", "1.0.r3", "v1.5", "V2", "1.0.post", "1.0a", "1.0.DEV3", "1!1.0rc1", "0.9.post9",
       "1.5.dev1", "1.5a0", "2.0+ABC"]
BLANKED = [" 1.0", "\t2.0", "  1.5", " 1.0rc1"]                 # a blank between == and the version (Version strips it)
VALID = CORE + EXT
LEGACY = ["2004d", "1.0-SNAPSHOT", "2.0.final"]       # version strings of real distributions that are not PEP 440
INVALID = ["", "abc", "1..0", "1_0", "=1.0", "1.0;x", UNP, "1.x", "1!", "!1.0", "1!2!3",
           "1.0+", "1.0+a+b", "1.0a1b2", "1.0-", "1.0 1", "1.0.post1.post2", "1.0+a..b", "1.0dev1x", "+abc", "a1.0"] + LEGACY
SEL_DIRS = [[], ["apps", "a"], ["apps", "b"], ["modules", "m"], ["scripts", "s"], ["apps", "c"], ["modules", "n"],
            ["scripts", "t"]]
DECOY_DIRS = [["apps"], ["apps", "a", "sub"], ["other"], ["scripts", "s", "deep"], ["modules", ".hid"], ["modules"]]
# lines that are NOT of the documented form `name` / `name==version`: pip options, URLs, extras, markers, inner blanks
OPTION_LINES = ["-r other.txt", "--index-url https://example.invalid/simple", "-e .", "--no-binary :all:",
                "-c constraints.txt", "--pre"]
URL_LINES = ["https://example.invalid/pkg-1.0.tar.gz", "hg+https://example.invalid/x@v1.0", "./local/dir",
             "file:///srv/x-1.0.whl"]

from packaging.version import InvalidVersion, Version  # noqa: E402

for _v in VALID + BLANKED:
    Version(_v)
for _v in INVALID:
    try:
        Version(_v)
        raise AssertionError(f"generator pool: {_v!r} is a valid version")
    except InvalidVersion:
        pass


def norm(name):
    """PEP 503 normal form – how pip and importlib.metadata identify a distribution"""
    return re.sub(r"[-_.]+", "-", name).lower()


def req_dist(name):
    """the distribution a requirement name refers to for the installer: `name` or `name[extras]`, else None"""
    base, bracket, rest = name.partition("[")
    if not re.fullmatch(r"[A-Za-z0-9._-]+", base) or (bracket and not rest.endswith("]")):
        return None
    return norm(base)


# ------------------------------------------------------------------ generators
def pad(rng, s):
    if rng.random() < 0.25:
        s = rng.choice([" ", "  ", "\t", " \t", "\x0c", " \x0b"]) + s
    if rng.random() < 0.25:
        s = s + rng.choice([" ", "  ", "\t", "\x0c"])
    return s


def spell(rng, n, variant):
    if n in VARIANTS and rng.random() < variant:
        return rng.choice(VARIANTS[n])
    return n


def gen_line(rng, names, bad=0.08, odd=0.0, variant=0.0):
    """`bad` = probability of a form that provoked one of the findings C20-F1..F4 before they were fixed (malformed /
    empty / sentinel pin, ~=, !=, ===); all of them must simply be ignored now.  `odd` = probability of a line that is
    not of the documented form (extras, markers, pip options, URLs, blanks around ==); `variant` = probability that a
    package with several spellings is not written in its normal form."""
    n = spell(rng, rng.choice(names), variant)
    r = rng.random()
    v, w = rng.choice(VALID), rng.choice(VALID)
    if r < bad:
        s = rng.choice([f"{n}=={rng.choice(INVALID)}", f"{n}=={rng.choice(INVALID)}", f"{n}~={v}", f"{n}!={v}", f"{n}==={v}"])
    elif r < bad + odd:
        s = rng.choice([f"{n}[extra]=={v}", f"{n}[a,b]=={v}", f"{n}[extra]", f'{n}=={v}; python_version < "3.9"',
                        f'{n}=={v} ; sys_platform == "linux"', f'{n}; python_version in "3.9 3.10"', f"{n}=={v};x",
                        f"{n} == {v}", f"{n} =={v}", f"{n} @ https://example.invalid/{n}.whl",
                        rng.choice(OPTION_LINES), rng.choice(URL_LINES)])
    elif r < 0.5:
        s = f"{n}=={rng.choice(BLANKED)}" if rng.random() < 0.04 else f"{n}=={v}"
    elif r < 0.68:
        s = n
    else:
        s = rng.choice([f"# {n}=={v}", "", "   ", f"{n}>={v}", f"{n}<={v}", f"{n}>{v}", f"{n}<{v}", f"{n}=={v},<{w}",
                        f"{n}=={v}=={w}", f"{n}=={v}#{w}", f"#{n}"])
    if rng.random() < 0.15 and "#" not in s:
        # inline comments may contain anything, also the characters of the rejected specifiers
        s = s + rng.choice([" # note", "#x==1", "  # q==9", "  # keep in sync with a1, do not bump", " # needs >=2 <3",
                            "#~=1.0 != 2", " # a==1==2", " # form feed\x0cq==9", " # vt\x0bp==99"])
    return pad(rng, s)


def rand_env(rng, names):
    """site / index are keyed by the normal form of the name (that is what the environment knows); the record is keyed
    by whatever spelling pyscript wrote"""
    site = {}
    rec = {}
    index = {}
    for n in names:
        k = norm(n)
        if rng.random() < 0.5:
            site[k] = rng.choice(CORE if rng.random() < 0.7 else EXT)
            if rng.random() < 0.02:
                site[k] = rng.choice(LEGACY)        # a distribution whose version is not PEP 440
        if rng.random() < 0.4:
            # recorded: same string as installed, an equal version, or something else
            c = rng.random()
            if k in site and c < 0.5:
                rec[n] = site[k]
            elif k in site and c < 0.7 and re.fullmatch(r"[0-9.!]+", site[k]):
                rec[n] = site[k] + ".0"
            else:
                rec[n] = rng.choice(VALID)
        if rng.random() < 0.85:
            index[k] = rng.choice(CORE if rng.random() < 0.8 else EXT)
            if rng.random() < 0.02:
                index[k] = rng.choice(LEGACY)
    return site, index, rec


def mk(kind, site, index, rec, steps, tags=(), group=None):
    payload = {"kind": kind, "site": [[k, v] for k, v in site.items()], "index": [[k, v] for k, v in index.items()],
               "rec": [[k, v] for k, v in rec.items()], "steps": steps}
    if group is not None:
        payload["group"] = group
    return Case(payload, None, tags=(kind,) + tuple(tags))


WITNESSES = [["p==abc", "p==1.0"], ["p==", "p"], ["p", "p==abc"], ["p==1.0", "p==1.0.0", "p==2"], ["p", "p", "p==1.5"],
             ["p==1.0", "q==1.0", "p==0.9"], ["p==1.10", "p==1.9", "p"], ["p~=1.0", "p==2.0"], ["p==_unpinned_version", "p==1"],
             ["p>=1", "p==1.0 # c", "#p==9"], ["p==2.0  # pinned, see q<3", "p==1.0"], ["p # x>=1, y!=2", "p==1.5 #~=1"], ["p==1.0==2", "p==1.0"], ["p==", "p==1.0", "p==abc"],
             # witnesses of the fixed findings C20-F1..F4 (every permutation is run; must be green on /repo, and are
             # the first VIOLATIONs on a tree without the fix: commits)
             ["p", "p=="], ["p!=1.0", "p==2.0"], ["p~=1.0", "p!=1.0", "p"], ["p==_unpinned_version"],
             ["p==_unpinned_version", "p"], ["p==abc"], ["p==", "q==1.0"], ["p===1.0", "p==0.9"],
             # fix 5d02a52: only the ~= and != operators are rejected, a version epoch is a pin like any other
             ["p==1!2.0"], ["p==1!2.0", "p==3.0"], ["p==1!2.0", "p", "p==10.0"], ["p==0!1.5", "p==1.5", "p==1!0.1"],
             ["p!=1.0", "p==1!2.0", "p~=3.0"], ["p==1!", "p==1.0"],
             # boundary values of PEP 440 (pre / post / dev / local, normalised spellings, blank before the version)
             ["p==1.0rc1", "p==1.0"], ["p==1.0.dev3", "p==1.0a1", "p==1.0"], ["p==1.0.post1", "p==1.0", "p==1.0+abc"],
             ["p==1.0+abc", "p==1.0+5", "p==1.0+abc.5"], ["p==1.0RC1", "p==1.0rc1", "p==1.0c1"], ["p==v1.5", "p==1.5", "p"],
             ["p== 1.0", "p==1.0"], ["p==1.0-1", "p==1.0.post1", "p==1.0.post"], ["p==1.0.dev0", "p"],
             ["p==1.0+", "p==1.0"], ["p==1.0a1b2", "p==0.9"], ["p==1!1.0rc1", "p==2.0", "p==1!1.0"],
             ["P==1.0"], ["My_Pkg==1.5", "q==1.0"],
             # witnesses of the open findings C20-F6 (a line that is not `name[==version]` is kept as a package name),
             # C20-F7 (spellings of one package are separate rows); the witnesses of the fixed C20-F8 (byte-order mark) are
             # the file-format sweep cases
             ["p[extra]==1.0"], ["-r other.txt", "p==1.0"], ["p == 1.0", "p==2.0"], ["p @ https://example.invalid/p.whl"],
             ["My_Pkg==1.0", "my-pkg==2.0"], ["p==1.0", "P==2.0"], ["my.pkg", "MY-PKG==1.0", "my-pkg==0.9"]]


def file_fmt(rng, weird=0.25):
    """how the file is written: line ending, final newline, byte-order mark"""
    f = {}
    if rng.random() < weird:
        f["eol"] = rng.choice(["\r\n", "\r\n", "\r"])
    if rng.random() < weird:
        f["nofinalnl"] = True
    if rng.random() < weird / 2:
        f["bom"] = True                 # "UTF-8 with BOM": ignored since fix ed5a646 (finding C20-F8)
    return f


def perm_cases(rng, multisets):
    out = []
    for g, lines in enumerate(multisets):
        k = len(lines)
        spread = k <= 4 and rng.random() < 0.35        # one line per file: the same package in three or more files
        splits = [k] if rng.random() < 0.4 else [rng.randrange(0, k + 1)]
        seen = set()
        names = ["p", "q"] + [n for n in ("my-pkg",) if any("pkg" in l.lower() for l in lines)]
        site, index, rec = rand_env(rng, names)
        dirs = rng.sample(SEL_DIRS, k) if spread else None
        extra = []
        if spread and rng.random() < 0.6:               # plus an empty file and a file with comments / blanks only
            rest = [d for d in SEL_DIRS if d not in dirs]
            extra = [{"dir": rest[0], "lines": []}, {"dir": rest[1], "lines": ["# only a comment", "", "   # p==9"]}]
        fmt = [file_fmt(rng) for _ in range(k + 2)]
        for cut in splits:
            for perm in itertools.permutations(range(k)):
                arr = tuple(lines[i] for i in perm)
                if (cut, arr) in seen:
                    continue
                seen.add((cut, arr))
                if spread:
                    files = [dict({"dir": dirs[i], "lines": [arr[i]]}, **fmt[i]) for i in range(k)] + copy.deepcopy(extra)
                else:
                    files = [dict({"dir": [], "lines": list(arr[:cut])}, **fmt[0]),
                             dict({"dir": ["apps", "a"], "lines": list(arr[cut:])}, **fmt[1])]
                    if rng.random() < 0.5:
                        files.reverse()
                    files = [f for f in files if f["lines"]] or [{"dir": [], "lines": []}]
                out.append(mk("perm", site, index, rec, [{"allow": True, "ext": [], "files": files}], group=g,
                              tags=("spread",) if spread else ()))
    return out


def gen_files(rng, names, odd=0.02, variant=0.06):
    files = []
    dirs = rng.sample(SEL_DIRS, rng.choice([1, 2, 3, 3, 4, 5, 6]))
    if rng.random() < 0.4:
        dirs += rng.sample(DECOY_DIRS, rng.randrange(1, 3))
    rng.shuffle(dirs)
    for d in dirs:
        r = rng.random()
        if r < 0.07:
            lines = []                                                        # empty file
        elif r < 0.14:
            lines = rng.choice([["# just a comment"], ["", "  ", "#x==1"], ["# p==1.0", "#q"]])   # nothing but comments
        else:
            lines = [gen_line(rng, names, odd=odd, variant=variant) for _ in range(rng.randrange(1, 7))]
        files.append(dict({"dir": d, "lines": lines}, **file_fmt(rng, 0.12)))
    return files


def hist_case(rng):
    names = rng.sample(NAMES, rng.randrange(1, 5))
    if rng.random() < 0.2:
        names = names + ["my-pkg"]      # a package with several spellings
    if rng.random() < 0.04:
        names = names + ["zz"]          # a package the index never knows
    site, index, rec = rand_env(rng, [n for n in names if n != "zz"])
    if "my-pkg" in rec and rng.random() < 0.3:
        rec["My_Pkg"] = rec.pop("my-pkg")       # recorded under another spelling
    steps = []
    files = gen_files(rng, names)
    for i in range(rng.choice([1, 2, 2, 3])):
        ext = []
        if i > 0:
            r = rng.random()
            if r < 0.45:
                pass                                            # unchanged files: idempotence
            elif r < 0.75:
                files = copy.deepcopy(files)
                f = rng.choice(files)
                if f["lines"] and rng.random() < 0.5:
                    f["lines"][rng.randrange(len(f["lines"]))] = gen_line(rng, names)
                else:
                    f["lines"].append(gen_line(rng, names))
            else:
                files = gen_files(rng, names)
            if rng.random() < 0.3:
                n = norm(rng.choice(names))
                ext.append([n, rng.choice(VALID)] if rng.random() < 0.7 else [n, None])
        steps.append({"allow": rng.random() < 0.8, "ext": ext, "files": copy.deepcopy(files)})
    return mk("hist", site, index, rec, steps)


def combo_cases():
    """one package: installed x recorded x required x allow_all_imports x (index knows it | installer must fail), three
    consecutive runs with allow_all_imports toggled in the middle one"""
    out = []
    for inst in (None, "1.0", "2.0"):
        for recd in (None, "1.0", "2.0", "1.0.0"):
            for req in (None, "p", "p==1.0", "p==2.0", "p==1"):
                for allow in (False, True):
                    for index in ({"p": "3.2.1"}, {}):
                        if not index and req != "p":
                            continue
                        site = {"p": inst} if inst else {}
                        rec = {"p": recd} if recd else {}
                        files = [{"dir": [], "lines": [req] if req else ["# nothing"]}]
                        steps = [{"allow": al, "ext": [], "files": copy.deepcopy(files)} for al in (allow, not allow, allow)]
                        out.append(mk("combo", site, index, rec, steps))
    return out


ODD_FORMS = ["p[extra]==1.0", "p[extra]", "p[a,b]==1.0", 'p==1.0; python_version < "3.9"', 'p==1.0 ; sys_platform == "linux"',
             'p; python_version in "3.9 3.10"', "p==1.0;x", "p == 1.0", "p ==1.0", "p== 1.0", "p @ https://example.invalid/p.whl",
             "P==1.0", "P", "My_Pkg==1.0", "my.pkg"] + OPTION_LINES + URL_LINES


def sweep_cases():
    """every line form outside / at the edge of the documented `name[==version]`, alone and next to a plain pin, against
    an environment where the package is absent / installed by the host / installed and recorded by pyscript; plus the
    file-level boundary values (byte-order mark, CRLF / CR line ends, no final newline, empty and comment-only files)"""
    out = []
    for form in ODD_FORMS:
        for other in ([], ["p==2.0"], ["my-pkg==2.0"]):
            if other == ["my-pkg==2.0"] and "pkg" not in form.lower():
                continue
            for site, rec in (({}, {}), ({"p": "2.0", "my-pkg": "2.0"}, {}), ({"p": "2.0", "my-pkg": "2.0"}, {"p": "2.0", "my-pkg": "2.0"})):
                files = [{"dir": [], "lines": [form]}] + ([{"dir": ["apps", "a"], "lines": other}] if other else [])
                step = {"allow": True, "ext": [], "files": files}
                out.append(mk("sweep", site, {"p": "3.2.1", "my-pkg": "3.2.1"}, rec, [step, copy.deepcopy(step)], tags=("odd-form",)))
    for fmt in ({"bom": True}, {"bom": True, "eol": "\r\n"}, {"eol": "\r\n"}, {"eol": "\r"}, {"nofinalnl": True},
                {"eol": "\r\n", "nofinalnl": True}):
        for lines in (["p==1.0", "q"], ["# c", "p==1.0"], [], ["p==1.0"], ["", "p==1.5", "p==1.0 # x"]):
            files = [dict({"dir": [], "lines": lines}, **fmt), {"dir": ["apps", "a"], "lines": ["p==0.9"]},
                     {"dir": ["modules", "m"], "lines": []}, {"dir": ["scripts", "s"], "lines": ["# nothing here"]}]
            step = {"allow": True, "ext": [], "files": files}
            out.append(mk("sweep", {}, {"p": "3.2.1", "q": "1.0"}, {}, [step, copy.deepcopy(step)], tags=("file-format",)))
    # a distribution whose installed version is not PEP 440 (finding C20-F9): recorded earlier / installed unpinned first
    for leg in LEGACY:
        for line in ("p==1.0", "p", "p==2.0 # bump"):
            step = {"allow": True, "ext": [], "files": [{"dir": [], "lines": [line]}]}
            out.append(mk("sweep", {"p": leg}, {"p": "1.0"}, {"p": leg}, [step, copy.deepcopy(step)], tags=("legacy-version",)))
            out.append(mk("sweep", {"p": leg}, {"p": "1.0"}, {}, [step, copy.deepcopy(step)], tags=("legacy-version",)))
        s1 = {"allow": True, "ext": [], "files": [{"dir": [], "lines": ["p"]}]}
        s3 = {"allow": True, "ext": [], "files": [{"dir": [], "lines": ["p==1.0"]}]}
        out.append(mk("sweep", {}, {"p": leg}, {}, [s1, copy.deepcopy(s1), s3], tags=("legacy-version",)))
    # one package required from every selected directory
    vs = ["1.0", "1.5", "1.10", "1.9", "1.0rc1", "2.0.dev1", "1.0+abc", "0!1.5"]
    for shift in range(len(SEL_DIRS)):
        files = [{"dir": d, "lines": ["p==" + vs[(i + shift) % len(vs)]] + (["p"] if i % 3 == 0 else [])}
                 for i, d in enumerate(SEL_DIRS)]
        out.append(mk("sweep", {}, {"p": "3.2.1"}, {}, [{"allow": True, "ext": [], "files": files}], tags=("many-files",)))
    return out


def gen_cases(rng, tier, search):
    n_multi, n_hist = (260, 3600) if tier == "quick" else (2500, 40000)
    if search:
        n_multi, n_hist = n_multi * 3, n_hist * 3
    multisets = [list(w) for w in WITNESSES]
    for _ in range(n_multi):
        names = ["p"] if rng.random() < 0.7 else ["p", "q"]
        if rng.random() < 0.06:
            names = ["my-pkg"]
        kw = dict(bad=0.15, odd=0.02, variant=0.05)
        multisets.append([gen_line(rng, names, **kw).strip() if rng.random() < 0.7 else gen_line(rng, names, **kw)
                          for _ in range(rng.choice([2, 3, 3, 4]))])
    cases = perm_cases(rng, multisets)
    cases += combo_cases()
    cases += sweep_cases()
    cases += [hist_case(rng) for _ in range(n_hist)]
    pool = VALID + BLANKED + INVALID
    for a in pool:
        for b in pool:
            cases.append(Case({"kind": "ver", "a": a, "b": b}, "C20 " + sx(["ver", a, b]), tags=("ver",)))
    for c in cases:
        if c.payload["kind"] != "ver":
            c.nontrivial = any(_meaning(l) for st in c.payload["steps"] for f in st["files"] for l in f["lines"])
    return cases


# ------------------------------------------------------------------ running the real code
class FakeSite:
    """site-packages + the index behind the installer"""

    def __init__(self, site, index):
        self.site = dict(site)
        self.index = dict(index)
        self.calls = []

    def installed_version(self, name):
        """importlib.metadata.version: the distribution is looked up under the normalised name"""
        from importlib.metadata import PackageNotFoundError
        if not name:
            raise ValueError("A distribution name is required.")
        k = norm(name)
        if k in self.site:
            return self.site[k]
        raise PackageNotFoundError(name)

    async def process_requirements(self, hass, domain, reqs):
        from homeassistant.requirements import RequirementsNotFound
        self.calls.append(list(reqs))
        failed = []
        for req in reqs:
            name, sep, ver = req.partition("==")
            dist = req_dist(name)
            if dist is None:                # a pip option, a URL, a marker, a name with blanks: nothing it can install
                failed.append(req)
            elif sep:
                try:
                    Version(ver)
                except InvalidVersion:
                    failed.append(req)
                    continue
                self.site[dist] = ver
            elif dist in self.index:
                self.site[dist] = self.index[dist]
            else:
                failed.append(req)
        if failed:
            raise RequirementsNotFound(domain, failed)


def file_bytes(f):
    """the bytes of one requirements.txt as the payload describes it"""
    eol = f.get("eol", "\n")
    text = eol.join(f["lines"]) + ("" if f.get("nofinalnl") or not f["lines"] else eol)
    return (BOM if f.get("bom") else "").encode("utf-8") + text.encode("utf-8")


def seen_lines(f):
    """the lines of the file decoded as plain utf-8 (text mode: universal newlines; a byte-order mark is the first
    character of the first line) – this is what the model is given: dropping the mark (`utf-8-sig`, fix ed5a646) is the
    model's `decodeLines` under `Cfg.stripBom`; the oracle works on the lines as written"""
    lines = list(f["lines"])
    if f.get("bom"):
        lines = [BOM + lines[0]] + lines[1:] if lines else [BOM]
    return lines


def _glob_rank(root, files):
    """position of every file in the enumeration order of its parent directory (what glob will see)"""
    cache = {}
    ranks = []
    for f in files:
        d = f["dir"]
        if not d:
            ranks.append(0)
            continue
        parent = os.path.join(root, *d[:-1])
        if parent not in cache:
            cache[parent] = [os.path.basename(p) for p in glob.glob(os.path.join(glob.escape(parent), "*"))] + \
                            [os.path.basename(p) for p in glob.glob(os.path.join(glob.escape(parent), ".*"))]
        ranks.append(cache[parent].index(d[-1]) if d[-1] in cache[parent] else 0)
    return ranks


async def _run_case(payload):
    import custom_components.pyscript.requirements as R
    from custom_components.pyscript.const import CONF_ALLOW_ALL_IMPORTS, CONF_INSTALLED_PACKAGES

    fake = FakeSite(dict(map(tuple, payload["site"])), dict(map(tuple, payload["index"])))
    rec0 = dict(map(tuple, payload["rec"]))
    # like Home Assistant: entry.data is a read-only mapping; what async_update_entry is given is what gets stored
    entry = types.SimpleNamespace(data=types.MappingProxyType({CONF_INSTALLED_PACKAGES: dict(rec0), "hass_is_global": True}))
    stored = {"data": copy.deepcopy(dict(entry.data))}
    updates = []

    def update_entry(entry=None, data=None, **kw):
        updates.append(1)
        stored["data"] = copy.deepcopy(dict(data))
        entry.data = types.MappingProxyType(dict(data))

    async def exec_job(fn, *args):
        return fn(*args)

    hass = types.SimpleNamespace(async_add_executor_job=exec_job,
                                 config_entries=types.SimpleNamespace(async_update_entry=update_entry))
    tables = []
    real_process = R.process_all_requirements

    def spy(*a, **kw):
        t = real_process(*a, **kw)
        tables.append(copy.deepcopy(t))
        return t

    outs = []
    step_lines = []
    details = []
    for st in payload["steps"]:
        for n, v in st["ext"]:
            if v is None:
                fake.site.pop(n, None)
            else:
                fake.site[n] = v
        site_before = dict(fake.site)
        rec_before = dict(entry.data.get(CONF_INSTALLED_PACKAGES, {}))
        # the user flips the option: Home Assistant stores it and hands out a new read-only mapping
        newd = dict(entry.data)
        newd[CONF_ALLOW_ALL_IMPORTS] = st["allow"]
        entry.data = types.MappingProxyType(newd)
        stored["data"] = copy.deepcopy(newd)
        frozen_rec = copy.deepcopy(newd.get(CONF_INSTALLED_PACKAGES, {}))
        root = _scratch_root()
        written = []
        try:
            id_of = {}
            for i, f in enumerate(st["files"]):
                d = os.path.join(root, *f["dir"])
                if not os.path.isdir(d):
                    os.makedirs(d, exist_ok=True)
                path = os.path.join(d, "requirements.txt")
                with open(path, "wb") as fp:
                    fp.write(file_bytes(f))
                written.append(path)
                id_of[path] = i
            ranks = _glob_rank(root, st["files"])
            order = sorted(range(len(st["files"])), key=lambda i: (ranks[i], i))
            del tables[:], updates[:], fake.calls[:]
            exc = None
            with patch.object(R, "installed_version", fake.installed_version), \
                 patch.object(R, "async_process_requirements", fake.process_requirements), \
                 patch.object(R, "process_all_requirements", spy):
                try:
                    await R.install_requirements(hass, entry, root)
                except Exception as e:  # an exception raised by pyscript / the installer is an outcome
                    exc = type(e).__name__
            table = tables[0] if tables else {}
            t_rows = [[name, info["version"], [id_of.get(s, 99) for s in info["sources"]],
                       [] if info["installed_version"] is None else [info["installed_version"]]]
                      for name, info in table.items()]
            args = fake.calls[0] if fake.calls else None
            rec_after = dict(entry.data.get(CONF_INSTALLED_PACKAGES, {}))
            out = [["T"] + t_rows, (["A"] + list(args)) if args is not None else "noinstall",
                   ["R", [[k, v] for k, v in rec_after.items()]], "U1" if updates else "U0",
                   "E:" + exc if exc else "E-", ["W", [[k, v] for k, v in fake.site.items()]]]
            outs.append(out)
            step_lines.append([st["allow"], ["ext"] + [[n] if v is None else [n, v] for n, v in st["ext"]],
                               ["files"] + [[i, st["files"][i]["dir"], seen_lines(st["files"][i])] for i in order]])
            details.append({"table": {n: i["version"] for n, i in table.items()}, "args": args, "exc": exc,
                            "site_before": site_before, "site_after": dict(fake.site), "rec_before": rec_before,
                            "rec_after": rec_after, "updates": len(updates), "ncalls": len(fake.calls),
                            "stored_rec": copy.deepcopy(stored["data"].get(CONF_INSTALLED_PACKAGES)),
                            "stored_other": {k: v for k, v in stored["data"].items() if k != CONF_INSTALLED_PACKAGES},
                            "entry_other": {k: v for k, v in dict(entry.data).items() if k != CONF_INSTALLED_PACKAGES},
                            "old_rec_mutated": newd.get(CONF_INSTALLED_PACKAGES, {}) != frozen_rec,
                            "multi_src": sum(1 for r in t_rows if len(r[2]) > 1)})
        finally:
            for path in written:
                try:
                    os.unlink(path)
                except OSError:
                    pass
    line = "C20 " + sx(["run", ["site"] + payload["site"], ["index"] + payload["index"], ["rec"] + payload["rec"],
                        ["steps"] + step_lines])
    return "model=" + sx(outs), line, details


_ROOT = []


def _scratch_root():
    """one scratch pyscript folder per process with every directory of the generator in it (removing and re-creating
    directories for each of ~10^4 runs is what costs the time); only the requirements.txt files come and go.  Which file
    of a directory pattern is read first is taken from the real listing (`_glob_rank`), the permutations of the lines
    over the files are what varies."""
    if not _ROOT:
        root = tempfile.mkdtemp(prefix="c20_")
        for d in SEL_DIRS + DECOY_DIRS:
            os.makedirs(os.path.join(root, *d), exist_ok=True)
        _ROOT.append(root)
    return _ROOT[0]


def _drop_root():
    while _ROOT:
        shutil.rmtree(_ROOT.pop(), ignore_errors=True)


def run_impl(cases):
    logging.disable(logging.CRITICAL)
    loop = asyncio.new_event_loop()
    try:
        for c in cases:
            if c.payload["kind"] == "ver":
                c.impl = _ver_impl(c.payload["a"], c.payload["b"])
                continue
            c.impl, c.line, det = loop.run_until_complete(_run_case(c.payload))
            c.payload["_details"] = det
    finally:
        loop.close()
        _drop_root()


def _ver_impl(a, b):
    try:
        x = Version(a)
    except InvalidVersion:
        return "invalid-a"
    try:
        y = Version(b)
    except InvalidVersion:
        return "invalid-b"
    return f"ok {int(x <= y)} {int(y <= x)}"


def split(outline):
    m = re.match(r"(model=.*) spec=(.*)$", outline)
    if not m:
        return outline, None
    return m.group(1), m.group(2)


# ------------------------------------------------------------------ the property oracle (independent of the model)
# a plain distribution name (PEP 508): letters, digits, - _ . beginning and ending with a letter or digit (so that a pip
# option such as `--pre` is not a package name)
NAME_RE = re.compile(r"([A-Za-z0-9](?:[A-Za-z0-9._-]*[A-Za-z0-9])?)(?:==(.*))?")


def _meaning(line):
    """(name, None) unpinned | (name, version) valid pin | None ignored"""
    b = line.split("#", 1)[0].strip()
    m = NAME_RE.fullmatch(b)
    if not m:
        return None
    name, v = m.group(1), m.group(2)
    if v is None:
        return (name, None)
    try:
        Version(v)
    except InvalidVersion:
        return None
    return (name, v)


def _selected(d):
    return d == [] or (len(d) == 2 and d[0] in ("apps", "modules", "scripts") and not d[1].startswith("."))


def oracle_table(files):
    """normalised package name -> selected version.  Works on the lines as written (a byte-order mark is not part of
    the first line), identifies a package by its PEP 503 normal form"""
    best = {}
    for f in files:
        if not _selected(f["dir"]):
            continue
        for l in f["lines"]:
            m = _meaning(l)
            if not m:
                continue
            name, v = norm(m[0]), m[1]
            if v is None:
                best.setdefault(name, UNP)
            elif best.get(name, UNP) == UNP or Version(best[name]) < Version(v):
                best[name] = v
    return best


def veq(a, b):
    if a == UNP or b == UNP or a == b:
        return a == b
    try:
        return Version(a) == Version(b)
    except InvalidVersion:
        return False


def _is_version(v):
    try:
        Version(v)
        return True
    except InvalidVersion:
        return False


def _raw_lines(files, name):
    return [l for f in files if _selected(f["dir"]) for l in f["lines"] if name.lower() in l.lower()]


def table_reason(files, got, want):
    """got: the code's table (raw name -> version); want: the oracle's (normalised name -> version)"""
    by_norm = {}
    for p, v in got.items():
        if any(ch in p for ch in "~!"):
            return f"specifier-kept-as-name: line {p!r} with an unsupported specifier became an unpinned package of that name"
        if p.startswith(BOM):
            return (f"bom-first-line-kept: the byte-order mark of a requirements.txt became part of the first package name "
                    f"{p!r} (the requirement itself is lost)")
        if not NAME_RE.fullmatch(p) or "==" in p:
            return (f"non-plain-name-kept: {p!r} is not a distribution name (extras / marker / pip option / URL / blanks) "
                    f"but is kept as a package = {v!r}, looked up as not installed and handed to the installer")
        by_norm.setdefault(norm(p), []).append(p)
    for n, ps in by_norm.items():
        if len(ps) > 1:
            return (f"name-variants-not-merged: {ps!r} are spellings of one package {n!r} but are separate rows "
                    f"{[got[p] for p in ps]!r} (expected one row = {want.get(n)!r})")
    for p, v in got.items():
        n = norm(p)
        if n not in want or not veq(v, want[n]):
            if v != UNP:
                try:
                    Version(v)
                except InvalidVersion:
                    kind = "empty" if v == "" else "malformed"
                    return (f"invalid-pin-selected-{kind}: package {p!r} selected {v!r} which is not a version (expected "
                            f"{want.get(n)!r}); lines {_raw_lines(files, p)!r}")
            if v == UNP and any((p + "==" + UNP) in l for l in _raw_lines(files, p)) and \
                    not any(_meaning(l) == (p, None) for l in _raw_lines(files, p)):
                return f"sentinel-pin-as-unpinned: package {p!r}: a pin to the sentinel string counts as an unpinned requirement"
            if n not in want:
                return f"ignored-line-not-ignored: package {p!r} = {v!r} comes only from lines that must be ignored"
            return f"not-highest-pin: package {p!r} selected {v!r}, highest pin is {want[n]!r}"
    for n in want:
        if n not in by_norm:
            return f"requirement-lost: package {n!r} (expected {want[n]!r}) missing from the table"
    return None


def step_reason(i, st, d, prev):
    want_n = oracle_table(st["files"])
    r = table_reason(st["files"], d["table"], want_n)
    if r:
        return r
    # the table is clean: one row per package, plain names.  From here on `p` is the spelling the files use.
    want = {p: want_n[norm(p)] for p in d["table"]}
    site, rec, allow = d["site_before"], d["rec_before"], st["allow"]
    args = d["args"]

    def inst(p):
        return site.get(norm(p))

    def other_spelling(p):
        """pyscript's record knows this package under another spelling: the code (raw text comparison) treats it as
        unrecorded – part of finding C20-F7, not a new defect"""
        return any(k != p and norm(k) == norm(p) for k in list(rec) + list(d["rec_after"]))

    def blame(p, text):
        return ("name-variants-not-merged: record spelled differently - " if other_spelling(p) else "") + text

    # ---- what is stored in the config entry must be what the in-memory object says, nothing else may be lost
    if d["stored_rec"] != d["rec_after"]:
        return (f"stored-record-differs: config entry object says {d['rec_after']!r} but the data handed to "
                f"async_update_entry / stored is {d['stored_rec']!r}")
    if d["stored_other"] != d["entry_other"] or "hass_is_global" not in d["stored_other"] or \
            d["stored_other"].get("allow_all_imports") != allow:
        return f"config-entry-data-lost: other config entry data changed: stored {d['stored_other']!r}"
    if d["old_rec_mutated"]:
        return "old-record-mutated: the previous record dict was modified in place instead of storing a new one"
    if want and not allow:
        if args is not None:
            return f"installed-without-optin: installer called with {args!r} although allow_all_imports is off"
        if d["rec_after"] != rec or d["updates"]:
            return "record-changed-without-optin: record changed although allow_all_imports is off"
        if d["exc"]:
            return f"raised-{d['exc']}: install_requirements raised"
        return None
    if d["exc"] and d["exc"] != "RequirementsNotFound":
        if d["exc"] == "InvalidVersion":
            bad = sorted(p for p in want if p in rec and inst(p) is not None and not (_is_version(rec[p]) and _is_version(inst(p))))
            if bad:
                return (f"raised-InvalidVersion-installed-not-pep440: install_requirements raised InvalidVersion: {bad!r} recorded "
                        f"{[rec[p] for p in bad]!r} / installed {[inst(p) for p in bad]!r} is not a PEP 440 version")
        return f"raised-{d['exc']}: install_requirements raised"
    expect = set()
    for p, v in want.items():
        if inst(p) is None:
            expect.add(p)
        elif p in rec and veq(rec[p], inst(p)) and v != UNP and not veq(v, inst(p)):
            expect.add(p)
    got = {}
    for a in args or []:
        n, sep, v = a.partition("==")
        got[n] = v if sep else UNP
    if d["ncalls"] > 1:
        return "installer-called-twice: more than one installer call in one run"
    for p in got:
        if p not in expect:
            if inst(p) is not None and p not in rec:
                return blame(p, f"foreign-package-touched: {p!r} is installed ({inst(p)!r}) by something else but was passed to the installer")
            if inst(p) is not None and p in rec and not veq(rec[p], inst(p)):
                return f"externally-changed-package-touched: {p!r} recorded {rec[p]!r} but {inst(p)!r} is installed; passed to the installer"
            return f"needless-reinstall: {p!r} passed to the installer although the required version is installed"
        if not veq(got[p], want[p]):
            return f"wrong-version-installed: {p!r} installer got {got[p]!r}, selected is {want[p]!r}"
    for p in expect:
        if p not in got:
            return f"missing-install: {p!r} (required {want[p]!r}, installed {inst(p)!r}, recorded {rec.get(p)!r}) not passed to the installer"
    after = d["site_after"]
    ra = d["rec_after"]
    raw_of = {norm(p): p for p in want}
    for k in after:
        if after[k] != site.get(k):                  # pyscript (through the installer) put this version there
            p = raw_of.get(k, k)
            if p not in ra or not veq(ra[p], after[k]):
                why = "after-installer-failure" if d["exc"] else "after-success"
                return (f"installed-but-unrecorded-{why}: {p!r}=={after[k]!r} was installed in this run but the record says "
                        f"{ra.get(p)!r}")
    for p in ra:
        if p not in got and (p not in rec or ra[p] != rec[p]):
            return f"record-spurious: {p!r}: record changed to {ra[p]!r} without an install"
    for p in rec:
        if p not in ra and not (p in want and inst(p) is not None and inst(p) != rec[p]):
            return f"record-dropped: {p!r} dropped from the record although it was not changed externally"
    # a package that pyscript recorded under ANOTHER spelling is treated as foreign by the code: never updated
    for p, v in want.items():
        for k in rec:
            if k != p and norm(k) == norm(p) and inst(p) is not None and veq(rec[k], inst(p)) and v != UNP \
                    and not veq(v, inst(p)) and p not in got:
                return (f"name-variants-not-merged: record spelled differently - {p!r} was installed by pyscript (recorded as "
                        f"{k!r}) and is pinned to another version now, but is not updated")
    if prev is not None:
        pst, pd = prev
        if pst["files"] == st["files"] and not st["ext"] and pst["allow"] and allow and not pd["exc"]:
            if args is not None or ra != rec:
                return f"not-idempotent: second run on unchanged files installed {args!r} / changed the record"
    return None


def verdict(c):
    if c.payload["kind"] == "ver":
        return None
    det = c.payload.get("_details")
    if det is None:
        return None
    prev = None
    for i, (st, d) in enumerate(zip(c.payload["steps"], det)):
        r = step_reason(i, st, d, prev)
        if r:
            return r
        prev = (st, d)
    # the Lean spec column must agree with the oracle (validates the spec itself)
    if c.spec:
        try:
            sp = parse_sx(c.spec)
        except Exception:  # pylint: disable=broad-except
            return None
        sp = sp if isinstance(sp, list) else [sp]
        for st, tab in zip(c.payload["steps"], sp):
            want = oracle_table(st["files"])
            got = {kv[0]: kv[1] for kv in tab} if isinstance(tab, list) else {}
            if set(got) != set(want) or any(not veq(got[p], want[p]) for p in want):
                return f"spec-oracle-disagree: Lean spec {got!r} vs oracle {want!r}"
    return None


# signatures of the findings that are FIXED in /repo (status "fixed" in findings.d/C20.json).  A fixed entry suppresses
# nothing: if the behaviour comes back it is a VIOLATION.  common.run_check only matches "open" entries; on top of that
# classify() gives such a case a signature that no known-findings entry carries, so not even a stale or re-opened entry
# with the old signature could excuse it.
FIXED_SIGNATURES = {"invalid-pin-selected-malformed": "C20-F1", "invalid-pin-selected-empty": "C20-F2",
                    "specifier-kept-as-name": "C20-F3", "sentinel-pin-as-unpinned": "C20-F4",
                    "bom-first-line-kept": "C20-F8", "raised-InvalidVersion-installed-not-pep440": "C20-F9"}


def classify(c, reason):
    sig = reason.split(":", 1)[0]
    if sig in FIXED_SIGNATURES:
        return f"regression-of-fixed-{FIXED_SIGNATURES[sig]}:{sig}"
    return sig


def replay_cases(obj):
    p = obj["case"]
    p.pop("_details", None)
    if p.get("kind") == "ver":
        return [Case(p, "C20 " + sx(["ver", p["a"], p["b"]]))]
    return [Case(p, None)]


def shrink(c, reason):
    """greedy: cut steps after the failing one, then drop lines / files while the same signature fails"""
    sig = classify(c, reason)

    def fails(payload):
        cc = Case(copy.deepcopy(payload), None)
        run_impl([cc])
        r = verdict(cc)
        return cc if r and classify(cc, r) == sig else None

    best = c
    p = copy.deepcopy(c.payload)
    p.pop("_details", None)
    if p.get("kind") == "ver":
        return c
    changed = True
    budget = 200
    while changed and budget > 0:
        changed = False
        for si in range(len(p["steps"]) - 1, -1, -1):
            q = copy.deepcopy(p)
            del q["steps"][si]
            budget -= 1
            if q["steps"] and (cc := fails(q)):
                p, best, changed = q, cc, True
                break
        if changed:
            continue
        for si, st in enumerate(p["steps"]):
            for fi, f in enumerate(st["files"]):
                for li in range(len(f["lines"])):
                    q = copy.deepcopy(p)
                    del q["steps"][si]["files"][fi]["lines"][li]
                    budget -= 1
                    if budget > 0 and (cc := fails(q)):
                        p, best, changed = q, cc, True
                        break
                if changed:
                    break
            if changed:
                break
    best.payload["shrunk_from_lines"] = sum(len(f["lines"]) for st in c.payload["steps"] for f in st["files"])
    return best


def extra_coverage(cases):
    kinds = {}
    branches = {"blocked": 0, "install": 0, "noinstall": 0, "exc": 0, "rec_pop": 0, "unpinned_resolved": 0,
                "rows_with_several_sources": 0, "rows_pinned": 0, "rows_unpinned": 0, "entry_updated": 0}
    line_forms = {}
    for c in cases:
        k = c.payload["kind"]
        kinds[k] = kinds.get(k, 0) + 1
        if k == "ver":
            continue
        for st, d in zip(c.payload["steps"], c.payload.get("_details", [])):
            for f in st["files"]:
                for l in f["lines"]:
                    b = l.split("#", 1)[0].strip()
                    ver = b.split("==", 1)[1] if "==" in b else ""
                    form = ("blank/comment" if not b else "multi==" if b.count("==") > 1 else
                            "~=" if "~=" in b else "!=" if "!=" in b else "range/marker" if re.search("[<>,]", b) else
                            "option" if b.startswith("-") else "url" if "://" in b or b.startswith("./") else
                            "extras" if "[" in b else "marker" if ";" in b else
                            "blank-around-==" if "==" in b and b.split("==")[0] != b.split("==")[0].rstrip()
                            else "pin-blank-before-version" if re.match(r"\s", ver) else
                            "name-variant" if NAME_RE.fullmatch(b.split("==")[0]) and norm(b.split("==")[0]) != b.split("==")[0] else
                            "epoch-pin" if "!" in ver else "local-pin" if "+" in ver else
                            "pre/post/dev-pin" if re.search(r"[A-Za-z]|-", ver) else "pin" if "==" in b else "unpinned")
                    line_forms[form] = line_forms.get(form, 0) + 1
            if d["args"] is not None:
                branches["install"] += 1
            elif want_blocked(st, d):
                branches["blocked"] += 1
            else:
                branches["noinstall"] += 1
            if d["exc"]:
                branches["exc"] += 1
            branches["rows_with_several_sources"] += d.get("multi_src", 0)
            branches["rows_unpinned"] += sum(1 for v in d["table"].values() if v == UNP)
            branches["rows_pinned"] += sum(1 for v in d["table"].values() if v != UNP)
            branches["entry_updated"] += 1 if d["updates"] else 0
            if any(p not in d["rec_after"] for p in d["rec_before"]):
                branches["rec_pop"] += 1
            if any(a and "==" not in a for a in (d["args"] or [])):
                branches["unpinned_resolved"] += 1
    files = {"files": 0, "empty": 0, "comment_only": 0, "bom": 0, "crlf": 0, "cr": 0, "no_final_newline": 0,
             "max_files_one_package": 0, "steps_with_3+_files_one_package": 0}
    runs = {"steps": 0, "second_or_later_run": 0, "allow_toggled": 0, "record_equal_installed": 0,
            "record_differs_from_installed": 0, "stored_updates": 0, "installer_failed": 0}
    for c in cases:
        if c.payload["kind"] == "ver":
            continue
        prev_allow = None
        for i, (st, d) in enumerate(zip(c.payload["steps"], c.payload.get("_details", []))):
            per_pkg = {}
            for f in st["files"]:
                files["files"] += 1
                body = [l.split("#", 1)[0].strip() for l in f["lines"]]
                files["empty"] += not f["lines"]
                files["comment_only"] += bool(f["lines"]) and not any(body)
                files["bom"] += bool(f.get("bom"))
                files["crlf"] += f.get("eol") == "\r\n"
                files["cr"] += f.get("eol") == "\r"
                files["no_final_newline"] += bool(f.get("nofinalnl"))
                for n in {norm(m[0]) for m in map(_meaning, f["lines"]) if m}:
                    per_pkg[n] = per_pkg.get(n, 0) + (1 if _selected(f["dir"]) else 0)
            mx = max(per_pkg.values(), default=0)
            files["max_files_one_package"] = max(files["max_files_one_package"], mx)
            files["steps_with_3+_files_one_package"] += mx >= 3
            runs["steps"] += 1
            runs["second_or_later_run"] += i > 0
            runs["allow_toggled"] += prev_allow is not None and prev_allow != st["allow"]
            prev_allow = st["allow"]
            for p, v in d["rec_before"].items():
                inst = d["site_before"].get(norm(p))
                if inst is not None:
                    runs["record_equal_installed" if veq(v, inst) else "record_differs_from_installed"] += 1
            runs["stored_updates"] += d["updates"]
            runs["installer_failed"] += d["exc"] == "RequirementsNotFound"
    return {"case_kinds": kinds, "line_forms": line_forms, "decision_branches": branches, "file_boundaries": files,
            "run_history": runs}


def want_blocked(st, d):
    return bool(d["table"]) and not st["allow"]
