"""C20 correspondence + property oracle: real requirements.py on real temp directories vs the Lean model.

impl  = the real `install_requirements` / `process_all_requirements` (files on disk, `installed_version` and
        `async_process_requirements` patched to a fake site-packages + index, stub hass / config entry)
model = PsModel.C20.runOnce via verifdrv;  spec = PsModel.C20.specTable (order-free selection)
verdict = an independent Python oracle (packaging.version) for the property itself.  The oracle states the intended
        behaviour and never looked at the code: a line counts only as `name` or `name==<valid version>` with a plain
        name; malformed / empty / sentinel pins and ~= != >= <= > < , lines are ignored.  /repo does exactly that since
        the fix: commits e2ec6b7 + d07dfc5 + 5d02a52 (findings C20-F1..F4, now "fixed": nothing excuses them any
        more).  A pin with a version epoch (p==1!2.0) is a valid pin: recorded in every order.
"""
import asyncio
import copy
import glob
import itertools
import json
import logging
import os
import re
import shutil
import tempfile
import types
from unittest.mock import patch

import common
from common import Case, sx, parse_sx

PROP = "C20"
RULE = ("(perm) multisets of 2-4 requirement lines for 1-2 packages spread over 1-2 files, EVERY permutation of the lines "
        "over the line slots (and the DESIGN witnesses); (hist) up to 4 requirements.txt files in selected and decoy "
        "directories, up to 6 lines each for up to 4 packages drawn from: pinned valid (incl. version epochs such as 1!2.0), unpinned, pinned malformed, "
        "comment / blank / padded lines, >= <= > < , forms, several ==, ~= != ===; random installed / recorded / index / "
        "allow_all_imports, 1-3 consecutive runs with external site changes and edited or unchanged files in between; "
        "(combo) one package, all installed x recorded x required x allow_all combinations, run twice; (ver) all pairs of "
        "the version pool against packaging.version.  Non-trivial = at least one line that parses; distinct by payload.")
ASSUMPTIONS = [
    "packaging.version.Version order is a total preorder; on the generator's version pool it coincides with numVer "
    "(checked pairwise by the `ver` cases)",
    "importlib.metadata.version(name) returns the installed version, raises PackageNotFoundError when absent and "
    "ValueError for an empty name (the fake site does the same)",
    "Home Assistant's async_process_requirements tries every requirement, keeps the ones that installed and raises "
    "RequirementsNotFound afterwards if one failed (homeassistant/requirements.py _install_requirements_if_missing); "
    "a pinned requirement installs iff its version string is a version, an unpinned one iff the index knows it",
    "glob order inside one directory is taken from the real run (the model is told the order, not the reason for it)",
    "only ASCII blanks (space, tab) pad lines; names are plain identifiers or carry a ~=/!= specifier",
    "versions are numeric releases with an optional epoch ('1!2.0'); pre/post/dev/local segments are outside the "
    "generator and outside numVer",
]
TRUSTED = ["tools/extract.py (REQUIREMENTS_PATHS, UNPINNED_VERSION)", "harness/run_C20.py (fake site, oracle, canonicalisation)",
           "modelled not verified: packaging.version, glob, importlib.metadata, Home Assistant's installer"]

UNP = "_unpinned_version"
NAMES = ["p", "q", "r", "s"]
VALID = ["1", "1.0", "1.0.0", "2.0", "1.5", "0.9", "10.0", "1.10", "1.9", "2", "01.0", "0", "0.0.1", "3.2.1",
         "1!2.0", "0!1.5", "1!0.1", "2!0"]                      # with an epoch: a lone '!' is NOT a specifier
INVALID = ["", "abc", "1..0", "1_0", "=1.0", "1.0;x", UNP, "1.x", "1!", "!1.0", "1!2!3"]
SEL_DIRS = [[], ["apps", "a"], ["apps", "b"], ["modules", "m"], ["scripts", "s"]]
DECOY_DIRS = [["apps"], ["apps", "a", "sub"], ["other"], ["scripts", "s", "deep"], ["modules", ".hid"], ["modules"]]

from packaging.version import InvalidVersion, Version  # noqa: E402

for _v in VALID:
    Version(_v)
for _v in INVALID:
    try:
        Version(_v)
        raise AssertionError(f"generator pool: {_v!r} is a valid version")
    except InvalidVersion:
        pass


# ------------------------------------------------------------------ generators
def pad(rng, s):
    if rng.random() < 0.25:
        s = rng.choice([" ", "  ", "\t", " \t"]) + s
    if rng.random() < 0.25:
        s = s + rng.choice([" ", "  ", "\t"])
    return s


def gen_line(rng, names, bad=0.08):
    """`bad` = probability of a form that provoked one of the findings C20-F1..F4 before they were fixed (malformed /
    empty / sentinel pin, ~=, !=, ===); all of them must simply be ignored now"""
    n = rng.choice(names)
    r = rng.random()
    v, w = rng.choice(VALID), rng.choice(VALID)
    if r < bad:
        s = rng.choice([f"{n}=={rng.choice(INVALID)}", f"{n}=={rng.choice(INVALID)}", f"{n}~={v}", f"{n}!={v}", f"{n}==={v}"])
    elif r < 0.5:
        s = f"{n}=={v}"
    elif r < 0.68:
        s = n
    else:
        s = rng.choice([f"# {n}=={v}", "", "   ", f"{n}>={v}", f"{n}<={v}", f"{n}>{v}", f"{n}<{v}", f"{n}=={v},<{w}",
                        f"{n}=={v}=={w}", f"{n}=={v}#{w}", f"#{n}"])
    if rng.random() < 0.15 and "#" not in s:
        # inline comments may contain anything, also the characters of the rejected specifiers
        s = s + rng.choice([" # note", "#x==1", "  # q==9", "  # keep in sync with a1, do not bump", " # needs >=2 <3",
                            "#~=1.0 != 2", " # a==1==2"])
    return pad(rng, s)


def rand_env(rng, names):
    site = {}
    rec = {}
    index = {}
    for n in names:
        if rng.random() < 0.5:
            site[n] = rng.choice(VALID)
        if rng.random() < 0.4:
            # recorded: same string as installed, an equal version, or something else
            k = rng.random()
            if n in site and k < 0.5:
                rec[n] = site[n]
            elif n in site and k < 0.7:
                rec[n] = site[n] + ".0"
            else:
                rec[n] = rng.choice(VALID)
        if rng.random() < 0.85:
            index[n] = rng.choice(VALID)
    return site, index, rec


def mk(kind, site, index, rec, steps, tags=(), group=None):
    payload = {"kind": kind, "site": [[k, v] for k, v in site.items()], "index": [[k, v] for k, v in index.items()],
               "rec": [[k, v] for k, v in rec.items()], "steps": steps}
    if group is not None:
        payload["group"] = group
    return Case(payload, None, tags=(kind,) + tuple(tags))


WITNESSES = [["p==abc", "p==1.0"], ["p==", "p"], ["p", "p==abc"], ["p==1.0", "p==1.0.0", "p==2"], ["p", "p", "p==1.5"],
             ["p==1.0", "q==1.0", "p==0.9"], ["p==1.10", "p==1.9", "p"], ["p~=1.0", "p==2.0"], ["p==_unpinned_version", "p==1"],
             ["p>=1", "p==1.0 # c", "#p==9"], ["p==2.0  # pinned, see q<3", "p==1.0"], ["p # x>=1, y!=2", "p==1.5 #~=1"], ["p==1.0==2", "p==1.0"], ["p==", "p==1.0", "p==abc"],
             # witnesses of the fixed findings C20-F1..F4 (every permutation is run; must be green on /repo, and are
             # the first VIOLATIONs on a tree without the fix: commits)
             ["p", "p=="], ["p!=1.0", "p==2.0"], ["p~=1.0", "p!=1.0", "p"], ["p==_unpinned_version"],
             ["p==_unpinned_version", "p"], ["p==abc"], ["p==", "q==1.0"], ["p===1.0", "p==0.9"],
             # fix 5d02a52: only the ~= and != operators are rejected, a version epoch is a pin like any other
             ["p==1!2.0"], ["p==1!2.0", "p==3.0"], ["p==1!2.0", "p", "p==10.0"], ["p==0!1.5", "p==1.5", "p==1!0.1"],
             ["p!=1.0", "p==1!2.0", "p~=3.0"], ["p==1!", "p==1.0"]]


def perm_cases(rng, multisets):
    out = []
    for g, lines in enumerate(multisets):
        k = len(lines)
        splits = [k] if rng.random() < 0.4 else [rng.randrange(0, k + 1)]
        seen = set()
        site, index, rec = rand_env(rng, ["p", "q"])
        for cut in splits:
            for perm in itertools.permutations(range(k)):
                arr = tuple(lines[i] for i in perm)
                if (cut, arr) in seen:
                    continue
                seen.add((cut, arr))
                files = [{"dir": [], "lines": list(arr[:cut])}, {"dir": ["apps", "a"], "lines": list(arr[cut:])}]
                if rng.random() < 0.5:
                    files.reverse()
                files = [f for f in files if f["lines"]] or [{"dir": [], "lines": []}]
                out.append(mk("perm", site, index, rec, [{"allow": True, "ext": [], "files": files}], group=g))
    return out


def gen_files(rng, names):
    files = []
    dirs = rng.sample(SEL_DIRS, rng.randrange(1, 5))
    if rng.random() < 0.4:
        dirs += rng.sample(DECOY_DIRS, rng.randrange(1, 3))
    rng.shuffle(dirs)
    for d in dirs:
        files.append({"dir": d, "lines": [gen_line(rng, names) for _ in range(rng.randrange(0, 7))]})
    return files


def hist_case(rng):
    names = rng.sample(NAMES, rng.randrange(1, 5))
    if rng.random() < 0.04:
        names = names + ["zz"]          # a package the index never knows
    site, index, rec = rand_env(rng, [n for n in names if n != "zz"])
    steps = []
    files = gen_files(rng, names)
    for i in range(rng.choice([1, 2, 2, 3])):
        ext = []
        if i > 0:
            r = rng.random()
            if r < 0.45:
                pass                                            # unchanged files: idempotence
            elif r < 0.75:
                files = copy.deepcopy(files)
                f = rng.choice(files)
                if f["lines"] and rng.random() < 0.5:
                    f["lines"][rng.randrange(len(f["lines"]))] = gen_line(rng, names)
                else:
                    f["lines"].append(gen_line(rng, names))
            else:
                files = gen_files(rng, names)
            if rng.random() < 0.3:
                n = rng.choice(names)
                ext.append([n, rng.choice(VALID)] if rng.random() < 0.7 else [n, None])
        steps.append({"allow": rng.random() < 0.8, "ext": ext, "files": copy.deepcopy(files)})
    return mk("hist", site, index, rec, steps)


def combo_cases():
    out = []
    for inst in (None, "1.0", "2.0"):
        for recd in (None, "1.0", "2.0", "1.0.0"):
            for req in (None, "p", "p==1.0", "p==2.0", "p==1"):
                for allow in (False, True):
                    site = {"p": inst} if inst else {}
                    rec = {"p": recd} if recd else {}
                    files = [{"dir": [], "lines": [req] if req else ["# nothing"]}]
                    step = {"allow": allow, "ext": [], "files": files}
                    out.append(mk("combo", site, {"p": "3.2.1"}, rec, [step, copy.deepcopy(step)]))
    return out


def gen_cases(rng, tier, search):
    n_multi, n_hist = (160, 2000) if tier == "quick" else (2000, 30000)
    if search:
        n_multi, n_hist = n_multi * 3, n_hist * 3
    multisets = [list(w) for w in WITNESSES]
    for _ in range(n_multi):
        names = ["p"] if rng.random() < 0.7 else ["p", "q"]
        multisets.append([gen_line(rng, names, bad=0.15).strip() if rng.random() < 0.7 else gen_line(rng, names, bad=0.15)
                          for _ in range(rng.choice([2, 3, 3, 4]))])
    cases = perm_cases(rng, multisets)
    cases += combo_cases()
    cases += [hist_case(rng) for _ in range(n_hist)]
    pool = VALID + INVALID[:4] + INVALID[-3:]
    for a in pool:
        for b in pool:
            cases.append(Case({"kind": "ver", "a": a, "b": b}, "C20 " + sx(["ver", a, b]), tags=("ver",)))
    for c in cases:
        if c.payload["kind"] != "ver":
            c.nontrivial = any(_meaning(l) for st in c.payload["steps"] for f in st["files"] for l in f["lines"])
    return cases


# ------------------------------------------------------------------ running the real code
class FakeSite:
    """site-packages + the index behind the installer"""

    def __init__(self, site, index):
        self.site = dict(site)
        self.index = dict(index)
        self.calls = []

    def installed_version(self, name):
        from importlib.metadata import PackageNotFoundError
        if not name:
            raise ValueError("A distribution name is required.")
        if name in self.site:
            return self.site[name]
        raise PackageNotFoundError(name)

    async def process_requirements(self, hass, domain, reqs):
        from homeassistant.requirements import RequirementsNotFound
        self.calls.append(list(reqs))
        failed = []
        for req in reqs:
            name, sep, ver = req.partition("==")
            if sep:
                try:
                    Version(ver)
                except InvalidVersion:
                    failed.append(req)
                    continue
                self.site[name] = ver
            elif name in self.index:
                self.site[name] = self.index[name]
            else:
                failed.append(req)
        if failed:
            raise RequirementsNotFound(domain, failed)


def _glob_rank(root, files):
    """position of every file in the enumeration order of its parent directory (what glob will see)"""
    cache = {}
    ranks = []
    for f in files:
        d = f["dir"]
        if not d:
            ranks.append(0)
            continue
        parent = os.path.join(root, *d[:-1])
        if parent not in cache:
            cache[parent] = [os.path.basename(p) for p in glob.glob(os.path.join(glob.escape(parent), "*"))] + \
                            [os.path.basename(p) for p in glob.glob(os.path.join(glob.escape(parent), ".*"))]
        ranks.append(cache[parent].index(d[-1]) if d[-1] in cache[parent] else 0)
    return ranks


async def _run_case(payload):
    import custom_components.pyscript.requirements as R
    from custom_components.pyscript.const import CONF_ALLOW_ALL_IMPORTS, CONF_INSTALLED_PACKAGES

    fake = FakeSite(dict(map(tuple, payload["site"])), dict(map(tuple, payload["index"])))
    rec0 = dict(map(tuple, payload["rec"]))
    entry = types.SimpleNamespace(data={CONF_INSTALLED_PACKAGES: dict(rec0)})
    updates = []

    def update_entry(entry=None, data=None, **kw):
        updates.append(1)
        entry.data = data

    async def exec_job(fn, *args):
        return fn(*args)

    hass = types.SimpleNamespace(async_add_executor_job=exec_job,
                                 config_entries=types.SimpleNamespace(async_update_entry=update_entry))
    tables = []
    real_process = R.process_all_requirements

    def spy(*a, **kw):
        t = real_process(*a, **kw)
        tables.append(copy.deepcopy(t))
        return t

    outs = []
    step_lines = []
    details = []
    for st in payload["steps"]:
        for n, v in st["ext"]:
            if v is None:
                fake.site.pop(n, None)
            else:
                fake.site[n] = v
        site_before = dict(fake.site)
        rec_before = dict(entry.data.get(CONF_INSTALLED_PACKAGES, {}))
        entry.data = dict(entry.data)
        entry.data[CONF_ALLOW_ALL_IMPORTS] = st["allow"]
        root = tempfile.mkdtemp(prefix="c20_")
        try:
            id_of = {}
            for i, f in enumerate(st["files"]):
                d = os.path.join(root, *f["dir"])
                os.makedirs(d, exist_ok=True)
                path = os.path.join(d, "requirements.txt")
                with open(path, "w", encoding="utf-8") as fp:
                    fp.write("".join(l + "\n" for l in f["lines"]))
                id_of[path] = i
            ranks = _glob_rank(root, st["files"])
            order = sorted(range(len(st["files"])), key=lambda i: (ranks[i], i))
            del tables[:], updates[:], fake.calls[:]
            exc = None
            with patch.object(R, "installed_version", fake.installed_version), \
                 patch.object(R, "async_process_requirements", fake.process_requirements), \
                 patch.object(R, "process_all_requirements", spy):
                try:
                    await R.install_requirements(hass, entry, root)
                except Exception as e:  # an exception raised by pyscript / the installer is an outcome
                    exc = type(e).__name__
            table = tables[0] if tables else {}
            t_rows = [[name, info["version"], [id_of.get(s, 99) for s in info["sources"]],
                       [] if info["installed_version"] is None else [info["installed_version"]]]
                      for name, info in table.items()]
            args = fake.calls[0] if fake.calls else None
            rec_after = dict(entry.data.get(CONF_INSTALLED_PACKAGES, {}))
            out = [["T"] + t_rows, (["A"] + list(args)) if args is not None else "noinstall",
                   ["R", [[k, v] for k, v in rec_after.items()]], "U1" if updates else "U0",
                   "E:" + exc if exc else "E-", ["W", [[k, v] for k, v in fake.site.items()]]]
            outs.append(out)
            step_lines.append([st["allow"], ["ext"] + [[n] if v is None else [n, v] for n, v in st["ext"]],
                               ["files"] + [[i, st["files"][i]["dir"], st["files"][i]["lines"]] for i in order]])
            details.append({"table": {n: i["version"] for n, i in table.items()}, "args": args, "exc": exc,
                            "site_before": site_before, "site_after": dict(fake.site), "rec_before": rec_before,
                            "rec_after": rec_after, "updates": len(updates), "ncalls": len(fake.calls),
                            "multi_src": sum(1 for r in t_rows if len(r[2]) > 1)})
        finally:
            shutil.rmtree(root, ignore_errors=True)
    line = "C20 " + sx(["run", ["site"] + payload["site"], ["index"] + payload["index"], ["rec"] + payload["rec"],
                        ["steps"] + step_lines])
    return "model=" + sx(outs), line, details


def run_impl(cases):
    logging.disable(logging.CRITICAL)
    loop = asyncio.new_event_loop()
    try:
        for c in cases:
            if c.payload["kind"] == "ver":
                c.impl = _ver_impl(c.payload["a"], c.payload["b"])
                continue
            c.impl, c.line, det = loop.run_until_complete(_run_case(c.payload))
            c.payload["_details"] = det
    finally:
        loop.close()


def _ver_impl(a, b):
    try:
        x = Version(a)
    except InvalidVersion:
        return "invalid-a"
    try:
        y = Version(b)
    except InvalidVersion:
        return "invalid-b"
    return f"ok {int(x <= y)} {int(y <= x)}"


def split(outline):
    m = re.match(r"(model=.*) spec=(.*)$", outline)
    if not m:
        return outline, None
    return m.group(1), m.group(2)


# ------------------------------------------------------------------ the property oracle (independent of the model)
NAME_RE = re.compile(r"([A-Za-z0-9._-]+)(?:==(.*))?")


def _meaning(line):
    """(name, None) unpinned | (name, version) valid pin | None ignored"""
    b = line.split("#", 1)[0].strip()
    m = NAME_RE.fullmatch(b)
    if not m:
        return None
    name, v = m.group(1), m.group(2)
    if v is None:
        return (name, None)
    try:
        Version(v)
    except InvalidVersion:
        return None
    return (name, v)


def _selected(d):
    return d == [] or (len(d) == 2 and d[0] in ("apps", "modules", "scripts") and not d[1].startswith("."))


def oracle_table(files):
    best = {}
    for f in files:
        if not _selected(f["dir"]):
            continue
        for l in f["lines"]:
            m = _meaning(l)
            if not m:
                continue
            name, v = m
            if v is None:
                best.setdefault(name, UNP)
            elif best.get(name, UNP) == UNP or Version(best[name]) < Version(v):
                best[name] = v
    return best


def veq(a, b):
    if a == UNP or b == UNP:
        return a == b
    try:
        return Version(a) == Version(b)
    except InvalidVersion:
        return False


def _raw_lines(files, name):
    return [l for f in files if _selected(f["dir"]) for l in f["lines"] if name in l]


def table_reason(files, got, want):
    for p, v in got.items():
        if p not in want or not veq(v, want[p]):
            if any(ch in p for ch in "~!"):
                return f"specifier-kept-as-name: line {p!r} with an unsupported specifier became an unpinned package of that name"
            if v != UNP:
                try:
                    Version(v)
                except InvalidVersion:
                    kind = "empty" if v == "" else "malformed"
                    return (f"invalid-pin-selected-{kind}: package {p!r} selected {v!r} which is not a version (expected "
                            f"{want.get(p)!r}); lines {_raw_lines(files, p)!r}")
            if v == UNP and any((p + "==" + UNP) in l for l in _raw_lines(files, p)) and \
                    not any(_meaning(l) == (p, None) for l in _raw_lines(files, p)):
                return f"sentinel-pin-as-unpinned: package {p!r}: a pin to the sentinel string counts as an unpinned requirement"
            if p not in want:
                return f"ignored-line-not-ignored: package {p!r} = {v!r} comes only from lines that must be ignored"
            return f"not-highest-pin: package {p!r} selected {v!r}, highest pin is {want[p]!r}"
    for p in want:
        if p not in got:
            return f"requirement-lost: package {p!r} (expected {want[p]!r}) missing from the table"
    return None


def step_reason(i, st, d, prev):
    want = oracle_table(st["files"])
    r = table_reason(st["files"], d["table"], want)
    if r:
        return r
    site, rec, allow = d["site_before"], d["rec_before"], st["allow"]
    args = d["args"]
    if want and not allow:
        if args is not None:
            return f"installed-without-optin: installer called with {args!r} although allow_all_imports is off"
        if d["rec_after"] != rec or d["updates"]:
            return "record-changed-without-optin: record changed although allow_all_imports is off"
        if d["exc"]:
            return f"raised-{d['exc']}: install_requirements raised"
        return None
    expect = set()
    for p, v in want.items():
        inst = site.get(p)
        if inst is None:
            expect.add(p)
        elif p in rec and veq(rec[p], inst) and v != UNP and not veq(v, inst):
            expect.add(p)
    got = {}
    for a in args or []:
        n, sep, v = a.partition("==")
        got[n] = v if sep else UNP
    if d["ncalls"] > 1:
        return "installer-called-twice: more than one installer call in one run"
    for p in got:
        if p not in expect:
            if p in site and p not in rec:
                return f"foreign-package-touched: {p!r} is installed ({site[p]!r}) by something else but was passed to the installer"
            if p in site and p in rec and not veq(rec[p], site[p]):
                return f"externally-changed-package-touched: {p!r} recorded {rec[p]!r} but {site[p]!r} is installed; passed to the installer"
            return f"needless-reinstall: {p!r} passed to the installer although the required version is installed"
        if not veq(got[p], want[p]):
            return f"wrong-version-installed: {p!r} installer got {got[p]!r}, selected is {want[p]!r}"
    for p in expect:
        if p not in got:
            return f"missing-install: {p!r} (required {want[p]!r}, installed {site.get(p)!r}, recorded {rec.get(p)!r}) not passed to the installer"
    after = d["site_after"]
    ra = d["rec_after"]
    if d["exc"] and d["exc"] != "RequirementsNotFound":
        return f"raised-{d['exc']}: install_requirements raised"
    for p in after:
        if after[p] != site.get(p):                  # pyscript (through the installer) put this version there
            if p not in ra or not veq(ra[p], after[p]):
                why = "after-installer-failure" if d["exc"] else "after-success"
                return (f"installed-but-unrecorded-{why}: {p!r}=={after[p]!r} was installed in this run but the record says "
                        f"{ra.get(p)!r}")
    for p in ra:
        if p not in got and (p not in rec or ra[p] != rec[p]):
            return f"record-spurious: {p!r}: record changed to {ra[p]!r} without an install"
    for p in rec:
        if p not in ra and not (p in want and site.get(p) is not None and site[p] != rec[p]):
            return f"record-dropped: {p!r} dropped from the record although it was not changed externally"
    if prev is not None:
        pst, pd = prev
        if pst["files"] == st["files"] and not st["ext"] and pst["allow"] and allow and not pd["exc"]:
            if args is not None or ra != rec:
                return f"not-idempotent: second run on unchanged files installed {args!r} / changed the record"
    return None


def verdict(c):
    if c.payload["kind"] == "ver":
        return None
    det = c.payload.get("_details")
    if det is None:
        return None
    prev = None
    for i, (st, d) in enumerate(zip(c.payload["steps"], det)):
        r = step_reason(i, st, d, prev)
        if r:
            return r
        prev = (st, d)
    # the Lean spec column must agree with the oracle (validates the spec itself)
    if c.spec:
        try:
            sp = parse_sx(c.spec)
        except Exception:  # pylint: disable=broad-except
            return None
        sp = sp if isinstance(sp, list) else [sp]
        for st, tab in zip(c.payload["steps"], sp):
            want = oracle_table(st["files"])
            got = {kv[0]: kv[1] for kv in tab} if isinstance(tab, list) else {}
            if set(got) != set(want) or any(not veq(got[p], want[p]) for p in want):
                return f"spec-oracle-disagree: Lean spec {got!r} vs oracle {want!r}"
    return None


# signatures of the findings that are FIXED in /repo (status "fixed" in findings.d/C20.json).  A fixed entry suppresses
# nothing: if the behaviour comes back it is a VIOLATION.  common.run_check only matches "open" entries; on top of that
# classify() gives such a case a signature that no known-findings entry carries, so not even a stale or re-opened entry
# with the old signature could excuse it.
FIXED_SIGNATURES = {"invalid-pin-selected-malformed": "C20-F1", "invalid-pin-selected-empty": "C20-F2",
                    "specifier-kept-as-name": "C20-F3", "sentinel-pin-as-unpinned": "C20-F4"}


def classify(c, reason):
    sig = reason.split(":", 1)[0]
    if sig in FIXED_SIGNATURES:
        return f"regression-of-fixed-{FIXED_SIGNATURES[sig]}:{sig}"
    return sig


def replay_cases(obj):
    p = obj["case"]
    p.pop("_details", None)
    if p.get("kind") == "ver":
        return [Case(p, "C20 " + sx(["ver", p["a"], p["b"]]))]
    return [Case(p, None)]


def shrink(c, reason):
    """greedy: cut steps after the failing one, then drop lines / files while the same signature fails"""
    sig = classify(c, reason)

    def fails(payload):
        cc = Case(copy.deepcopy(payload), None)
        run_impl([cc])
        r = verdict(cc)
        return cc if r and classify(cc, r) == sig else None

    best = c
    p = copy.deepcopy(c.payload)
    p.pop("_details", None)
    if p.get("kind") == "ver":
        return c
    changed = True
    budget = 200
    while changed and budget > 0:
        changed = False
        for si in range(len(p["steps"]) - 1, -1, -1):
            q = copy.deepcopy(p)
            del q["steps"][si]
            budget -= 1
            if q["steps"] and (cc := fails(q)):
                p, best, changed = q, cc, True
                break
        if changed:
            continue
        for si, st in enumerate(p["steps"]):
            for fi, f in enumerate(st["files"]):
                for li in range(len(f["lines"])):
                    q = copy.deepcopy(p)
                    del q["steps"][si]["files"][fi]["lines"][li]
                    budget -= 1
                    if budget > 0 and (cc := fails(q)):
                        p, best, changed = q, cc, True
                        break
                if changed:
                    break
            if changed:
                break
    best.payload["shrunk_from_lines"] = sum(len(f["lines"]) for st in c.payload["steps"] for f in st["files"])
    return best


def extra_coverage(cases):
    kinds = {}
    branches = {"blocked": 0, "install": 0, "noinstall": 0, "exc": 0, "rec_pop": 0, "unpinned_resolved": 0,
                "rows_with_several_sources": 0, "rows_pinned": 0, "rows_unpinned": 0, "entry_updated": 0}
    line_forms = {}
    for c in cases:
        k = c.payload["kind"]
        kinds[k] = kinds.get(k, 0) + 1
        if k == "ver":
            continue
        for st, d in zip(c.payload["steps"], c.payload.get("_details", [])):
            for f in st["files"]:
                for l in f["lines"]:
                    b = l.split("#", 1)[0].strip()
                    form = ("blank/comment" if not b else "multi==" if b.count("==") > 1 else
                            "~=" if "~=" in b else "!=" if "!=" in b else "range" if re.search("[<>,]", b) else
                            "epoch-pin" if "==" in b and "!" in b else "pin" if "==" in b else "unpinned")
                    line_forms[form] = line_forms.get(form, 0) + 1
            if d["args"] is not None:
                branches["install"] += 1
            elif want_blocked(st, d):
                branches["blocked"] += 1
            else:
                branches["noinstall"] += 1
            if d["exc"]:
                branches["exc"] += 1
            branches["rows_with_several_sources"] += d.get("multi_src", 0)
            branches["rows_unpinned"] += sum(1 for v in d["table"].values() if v == UNP)
            branches["rows_pinned"] += sum(1 for v in d["table"].values() if v != UNP)
            branches["entry_updated"] += 1 if d["updates"] else 0
            if any(p not in d["rec_after"] for p in d["rec_before"]):
                branches["rec_pop"] += 1
            if any(a and "==" not in a for a in (d["args"] or [])):
                branches["unpinned_resolved"] += 1
    return {"case_kinds": kinds, "line_forms": line_forms, "decision_branches": branches}


def want_blocked(st, d):
    return bool(d["table"]) and not st["allow"]
