import Pv.C20
namespace C20
variable {V : Type} (le : V → V → Bool)
  (refl : ∀ a, le a a = true) (trans : ∀ a b c, le a b = true → le b c = true → le a c = true)
  (total : ∀ a b, le a b = true ∨ le b a = true)
include refl trans total

/-- fold invariant, generalised over the prefix already consumed -/
theorem fold_best (pre ls : List (Req V)) (cur : Option (Req V)) (h : IsBest le pre cur) :
    IsBest le (pre ++ ls) (ls.foldl (merge1 le) cur) := by
  induction ls generalizing pre cur with
  | nil => simpa using h
  | cons x xs ih =>
    have step : IsBest le (pre ++ [x]) (merge1 le cur x) := by
      rcases cur with _ | (_ | c)
      · -- nothing recorded yet: pre = []
        simp only [IsBest] at h
        subst h
        cases x <;> simp [merge1, IsBest, refl]
      · -- unpinned recorded
        simp only [IsBest] at h
        cases x with
        | unpinned =>
          simp only [merge1, IsBest]
          refine ⟨by simp, ?_⟩
          intro y hy
          rcases List.mem_append.1 hy with hy | hy
          · exact h.2 y hy
          · simpa using hy
        | pinned v =>
          simp only [merge1, IsBest]
          refine ⟨by simp, ?_⟩
          intro u hu
          rcases List.mem_append.1 hu with hu | hu
          · have := h.2 _ hu; cases this
          · have : u = v := by simpa using hu
            subst this; exact refl u
      · -- pinned c recorded
        simp only [IsBest] at h
        cases x with
        | unpinned =>
          simp only [merge1, IsBest]
          refine ⟨by simp [h.1], ?_⟩
          intro u hu
          rcases List.mem_append.1 hu with hu | hu
          · exact h.2 u hu
          · simp at hu
        | pinned v =>
          simp only [merge1]
          by_cases h1 : le c v = true
          · by_cases h2 : le v c = true
            · simp only [h1, h2, Bool.and_self, if_true, IsBest]
              refine ⟨by simp [h.1], ?_⟩
              intro u hu
              rcases List.mem_append.1 hu with hu | hu
              · exact h.2 u hu
              · have : u = v := by simpa using hu
                subst this; exact h2
            · simp only [h1, h2, Bool.and_false, Bool.false_eq_true, if_false, if_true, IsBest]
              refine ⟨by simp, ?_⟩
              intro u hu
              rcases List.mem_append.1 hu with hu | hu
              · exact trans _ _ _ (h.2 u hu) h1
              · have : u = v := by simpa using hu
                subst this; exact refl u
          · have h2 : le v c = true := by
              rcases total c v with t | t
              · exact absurd t h1
              · exact t
            simp only [h1, Bool.false_and, Bool.false_eq_true, if_false, IsBest]
            refine ⟨by simp [h.1], ?_⟩
            intro u hu
            rcases List.mem_append.1 hu with hu | hu
            · exact h.2 u hu
            · have : u = v := by simpa using hu
              subst this; exact h2
    simpa [List.append_assoc] using ih (pre ++ [x]) _ step

theorem mergeAll_best (ls : List (Req V)) : IsBest le ls (mergeAll le ls) := by
  simpa [mergeAll] using fold_best le refl trans total [] ls none (by simp [IsBest])
end C20

namespace C20
variable {V : Type} (le : V → V → Bool)
  (refl : ∀ a, le a a = true) (trans : ∀ a b c, le a b = true → le b c = true → le a c = true)
  (total : ∀ a b, le a b = true ∨ le b a = true)

/-- results of two permutations are equal up to version-equality -/
def Equiv (a b : Option (Req V)) : Prop :=
  match a, b with
  | none, none => True
  | some .unpinned, some .unpinned => True
  | some (.pinned u), some (.pinned v) => le u v = true ∧ le v u = true
  | _, _ => False

include refl trans total in
theorem order_independent (ls ls' : List (Req V)) (hp : ls.Perm ls') :
    Equiv le (mergeAll le ls) (mergeAll le ls') := by
  have h1 := mergeAll_best le refl trans total ls
  have h2 := mergeAll_best le refl trans total ls'
  have mem : ∀ x, x ∈ ls ↔ x ∈ ls' := fun x => hp.mem_iff
  have hl : ls = [] ↔ ls' = [] := by
    constructor
    · intro h; subst h; exact List.perm_nil.1 hp.symm |> fun h => by simpa using hp.symm.eq_nil
    · intro h; subst h; simpa using hp.eq_nil
  rcases hr : mergeAll le ls with _ | (_ | u) <;> rcases hr' : mergeAll le ls' with _ | (_ | v) <;>
    rw [hr] at h1 <;> rw [hr'] at h2 <;> simp only [IsBest] at h1 h2 <;> simp only [Equiv]
  · -- none / unpinned
    exact h2.1 (hl.1 h1)
  · exact (List.ne_nil_of_mem h2.1) (hl.1 h1)
  · exact h1.1 (hl.2 h2)
  · -- unpinned / pinned : the pinned entry would have to be unpinned
    have := h1.2 _ ((mem _).2 h2.1); cases this
  · exact (List.ne_nil_of_mem h1.1) (hl.2 h2)
  · have := h2.2 _ ((mem _).1 h1.1); cases this
  · exact ⟨h2.2 u ((mem _).1 h1.1), h1.2 v ((mem _).2 h2.1)⟩
end C20
