/-! Prototype: ZMTP-style frame encode/decode round trip over byte lists (Nat bytes < 256). -/
namespace C19
abbrev Bytes := List Nat

def be (k : Nat) (n : Nat) : Bytes :=       -- k-byte big endian
  match k with
  | 0 => []
  | k+1 => (n / 256^k) % 256 :: be k n

def unbe : Bytes → Nat
  | bs => bs.foldl (fun acc b => acc * 256 + b) 0

def encFrame (more : Bool) (p : Bytes) : Bytes :=
  let flag := if more then 1 else 0
  if p.length ≤ 255 then [flag, p.length] ++ p else [flag + 2] ++ be 8 p.length ++ p

def encode : List Bytes → Bytes
  | [] => []
  | [p] => encFrame false p
  | p :: q :: rest => encFrame true p ++ encode (q :: rest)

/-- decoder over a flat byte list, fuel = number of frames still allowed -/
def decode : Nat → Bytes → List Bytes → Option (List Bytes × Bytes)
  | 0, _, _ => none
  | fuel+1, bs, acc =>
    match bs with
    | [] => none
    | flag :: rest =>
      let long := flag % 4 ≥ 2
      let hdr := if long then 8 else 1
      if rest.length < hdr then none else
      let len := unbe (rest.take hdr)
      let rest2 := rest.drop hdr
      if rest2.length < len then none else
      let body := rest2.take len
      let rest3 := rest2.drop len
      if flag % 2 = 1 then decode fuel rest3 (acc ++ [body]) else some (acc ++ [body], rest3)

#eval decode 10 (encode [[1,2,3],[],[7]] ++ [9,9]) []
#eval (decode 10 (encode [List.replicate 300 5, [1]]) []).map (fun r => (r.1.map List.length, r.2))
end C19
