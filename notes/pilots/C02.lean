/-! Prototype: marker-passing (pyscript style) vs outcome-style (reference) for a mini statement language. -/
namespace C02

inductive Stmt where
  | tick (i : Nat)
  | brk | cont
  | ret (i : Nat)
  | raise (e : Nat)
  | ite (body orelse : List Stmt)          -- condition comes from the tape
  | while_ (body orelse : List Stmt)       -- condition comes from the tape
  | try_ (body : List Stmt) (handler : Option (Nat × List Stmt)) (fin : List Stmt)
deriving Repr

structure World where
  log  : List Nat
  tape : List Bool
deriving Repr, DecidableEq

def World.tick (w : World) (i : Nat) : World := { w with log := w.log ++ [i] }
def World.next (w : World) : Bool × World :=
  match w.tape with
  | [] => (false, w)
  | b :: t => (b, { w with tape := t })

/-- reference outcome -/
inductive Out where
  | normal | brk | cont | ret (i : Nat) | raise (e : Nat)
deriving Repr, DecidableEq

/-- pyscript marker -/
inductive Marker where
  | brk | cont | ret (i : Nat)
deriving Repr, DecidableEq

/-- pyscript result: exception or optional marker -/
inductive Res where
  | ok (m : Option Marker) | exc (e : Nat)
deriving Repr, DecidableEq

def Res.toOut : Res → Out
  | .ok none => .normal
  | .ok (some .brk) => .brk
  | .ok (some .cont) => .cont
  | .ok (some (.ret i)) => .ret i
  | .exc e => .raise e

def Py.finish (o2 : Out) (r3 : Out × World) : Out × World :=
  match r3 with
  | (.normal, w3) => (o2, w3)
  | r => r
def PS.finish (r2 : Res) (r3 : Res × World) : Res × World :=
  match r3 with
  | (.ok none, w3) => (r2, w3)
  | r => r
def Py.handles (o : Out) (h : Option (Nat × List Stmt)) : Option (List Stmt) :=
  match o, h with
  | .raise e, some (cls, hb) => if e = cls then some hb else none
  | _, _ => none
def PS.handles (r : Res) (h : Option (Nat × List Stmt)) : Option (List Stmt) :=
  match r, h with
  | .exc e, some (cls, hb) => if e = cls then some hb else none
  | _, _ => none

mutual
/-- reference semantics -/
def Py.exec : Nat → Stmt → World → Out × World
  | 0, _, w => (.normal, w)
  | _+1, .tick i, w => (.normal, w.tick i)
  | _+1, .brk, w => (.brk, w)
  | _+1, .cont, w => (.cont, w)
  | _+1, .ret i, w => (.ret i, w)
  | _+1, .raise e, w => (.raise e, w)
  | n+1, .ite b o, w =>
      let (c, w) := w.next
      if c then Py.block n b w else Py.block n o w
  | n+1, .while_ b o, w => Py.loop n b o w
  | n+1, .try_ b h f, w =>
      let r1 := Py.block n b w
      let r2 := match Py.handles r1.1 h with
                | some hb => Py.block n hb r1.2
                | none => r1
      Py.finish r2.1 (Py.block n f r2.2)
def Py.block : Nat → List Stmt → World → Out × World
  | 0, _, w => (.normal, w)
  | _+1, [], w => (.normal, w)
  | n+1, s :: ss, w =>
      match Py.exec n s w with
      | (.normal, w') => Py.block n ss w'
      | r => r
def Py.loop : Nat → List Stmt → List Stmt → World → Out × World
  | 0, _, _, w => (.normal, w)
  | n+1, b, o, w =>
      let (c, w) := w.next
      if c then
        match Py.block n b w with
        | (.normal, w') => Py.loop n b o w'
        | (.cont, w') => Py.loop n b o w'
        | (.brk, w') => (.normal, w')
        | r => r
      else Py.block n o w
end

mutual
/-- pyscript-style semantics, with the loop-else fix applied (any marker propagates from orelse) -/
def PS.exec : Nat → Stmt → World → Res × World
  | 0, _, w => (.ok none, w)
  | _+1, .tick i, w => (.ok none, w.tick i)
  | _+1, .brk, w => (.ok (some .brk), w)
  | _+1, .cont, w => (.ok (some .cont), w)
  | _+1, .ret i, w => (.ok (some (.ret i)), w)
  | _+1, .raise e, w => (.exc e, w)
  | n+1, .ite b o, w =>
      let (c, w) := w.next
      if c then PS.stmts n b w else PS.stmts n o w
  | n+1, .while_ b o, w => PS.loop n b o w
  | n+1, .try_ b h f, w =>
      -- python: try body / except / finally with "return val in finally overrides"
      let r1 := PS.stmts n b w
      let r2 := match PS.handles r1.1 h with
                | some hb => PS.stmts n hb r1.2
                | none => r1
      PS.finish r2.1 (PS.stmts n f r2.2)
/-- `for arg1 in body: val = aeval(arg1); if isinstance(val, EvalStopFlow): return val` -/
def PS.stmts : Nat → List Stmt → World → Res × World
  | 0, _, w => (.ok none, w)
  | _+1, [], w => (.ok none, w)
  | n+1, s :: ss, w =>
      match PS.exec n s w with
      | (.ok none, w') => PS.stmts n ss w'
      | r => r
def PS.loop : Nat → List Stmt → List Stmt → World → Res × World
  | 0, _, _, w => (.ok none, w)
  | n+1, b, o, w =>
      let (c, w) := w.next
      if c then
        match PS.stmts n b w with
        | (.ok (some .brk), w') => (.ok none, w')
        | (.ok (some (.ret i)), w') => (.ok (some (.ret i)), w')
        | (.exc e, w') => (.exc e, w')
        | (_, w') => PS.loop n b o w'
      else PS.stmts n o w
end

def lift (r : Res × World) : Out × World := (r.1.toOut, r.2)

end C02
