import Pv.C19
namespace C19

theorem be_length (k n : Nat) : (be k n).length = k := by
  induction k with
  | zero => simp [be]
  | succ k ih => simp [be, ih]

theorem unbe_cons (b : Nat) (bs : Bytes) : unbe (b :: bs) = b * 256 ^ bs.length + unbe bs := by
  have gen : ∀ (bs : Bytes) (a : Nat), bs.foldl (fun acc b => acc * 256 + b) a = a * 256 ^ bs.length + unbe bs := by
    intro bs
    induction bs with
    | nil => intro a; simp [unbe]
    | cons c cs ih =>
      intro a
      simp only [List.foldl_cons, List.length_cons, unbe]
      rw [ih (a * 256 + c), ih (0 * 256 + c)]
      simp only [Nat.zero_mul, Nat.zero_add, Nat.pow_succ]
      rw [Nat.add_mul, Nat.mul_assoc, Nat.mul_comm 256 (256 ^ cs.length)]
      omega
  simpa [unbe] using gen bs (0 * 256 + b)

theorem unbe_be (k n : Nat) : unbe (be k n) = n % 256 ^ k := by
  induction k with
  | zero => simp [be, unbe, Nat.mod_one]
  | succ k ih =>
    simp only [be]
    rw [unbe_cons, be_length, ih, Nat.pow_succ]
    have h256 : 0 < 256 ^ k := Nat.pow_pos (by decide)
    rw [Nat.mod_mul, Nat.mul_comm (256 ^ k) (n / 256 ^ k % 256)]
    omega

theorem unbe_be8 (n : Nat) (h : n < 2 ^ 64) : unbe (be 8 n) = n := by
  rw [unbe_be]; exact Nat.mod_eq_of_lt (by simpa using h)

end C19
#print axioms C19.unbe_be8
