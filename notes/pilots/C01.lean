/-! Pilot: expression evaluators generic over arbitrary primitives, with deviation flags. -/
namespace C01

abbrev Val := Nat
inductive Exc where | user (k : Nat) | other
deriving Repr, DecidableEq

/-- the world is abstract: any type; primitives are arbitrary world transformers -/
structure Prims (W : Type) where
  leaf  : Nat → W → Except Exc Val × W
  binop : Nat → Val → Val → W → Except Exc Val × W
  cmp   : Nat → Val → Val → W → Except Exc Bool × W
  build : List (Val × Val) → W → Except Exc Val × W
  ofBool : Bool → Val

inductive Expr where
  | const (k : Nat)
  | leaf (i : Nat)
  | binop (op : Nat) (l r : Expr)
  | compare (l : Expr) (rest : List (Nat × Expr))
  | dict (kvs : List (Expr × Expr))
deriving Repr

structure Cfg where
  dictKeyFirst : Bool
  compareOnce  : Bool
deriving Repr, DecidableEq

def Cfg.python : Cfg := ⟨true, true⟩
def Cfg.current : Cfg := ⟨false, false⟩

abbrev R (W : Type) (α : Type) := Except Exc α × W

/-- sequencing helper: run `k` on success, propagate the exception otherwise -/
@[inline] def bind {W α β} (r : R W α) (k : α → W → R W β) : R W β :=
  match r with
  | (.ok a, w) => k a w
  | (.error e, w) => (.error e, w)

section
variable {W : Type} (P : Prims W)

mutual
/-- reference semantics (fuel-free: expressions are finite, callee bodies are primitives here) -/
def Py.eval : Expr → W → R W Val
  | .const k, w => (.ok k, w)
  | .leaf i, w => P.leaf i w
  | .binop op l r, w =>
      bind (Py.eval l w) fun a w => bind (Py.eval r w) fun b w => P.binop op a b w
  | .compare l rest, w =>
      bind (Py.eval l w) fun a w => Py.chain a rest w
  | .dict kvs, w =>
      bind (Py.pairs kvs w) fun ps w => P.build ps w
def Py.chain : Val → List (Nat × Expr) → W → R W Val
  | _, [], w => (.ok (P.ofBool true), w)
  | a, (op, e) :: rest, w =>
      bind (Py.eval e w) fun b w =>
      bind (P.cmp op a b w) fun t w =>
      if t then Py.chain b rest w else (.ok (P.ofBool false), w)
def Py.pairs : List (Expr × Expr) → W → R W (List (Val × Val))
  | [], w => (.ok [], w)
  | (k, v) :: kvs, w =>
      bind (Py.eval k w) fun a w => bind (Py.eval v w) fun b w =>
      bind (Py.pairs kvs w) fun ps w => (.ok ((a, b) :: ps), w)
end

mutual
def PS.eval (cfg : Cfg) : Expr → W → R W Val
  | .const k, w => (.ok k, w)
  | .leaf i, w => P.leaf i w
  | .binop op l r, w =>
      bind (PS.eval cfg l w) fun a w => bind (PS.eval cfg r w) fun b w => P.binop op a b w
  | .compare l rest, w =>
      if cfg.compareOnce then
        bind (PS.eval cfg l w) fun a w => PS.chainOnce cfg a rest w
      else
        match rest with
        | [] => (.ok (P.ofBool true), w)
        | (op, e) :: rest' =>
          bind (PS.eval cfg l w) fun a w =>
          bind (PS.eval cfg e w) fun b w =>
          bind (P.cmp op a b w) fun t w =>
          if t then PS.chainAst cfg ((op, e) :: rest') w else (.ok (P.ofBool false), w)
  | .dict kvs, w =>
      bind (PS.pairs cfg kvs w) fun ps w => P.build ps w
def PS.chainOnce (cfg : Cfg) : Val → List (Nat × Expr) → W → R W Val
  | _, [], w => (.ok (P.ofBool true), w)
  | a, (op, e) :: rest, w =>
      bind (PS.eval cfg e w) fun b w =>
      bind (P.cmp op a b w) fun t w =>
      if t then PS.chainOnce cfg b rest w else (.ok (P.ofBool false), w)
/-- current shape after the first comparison: `left = right` carries the previous right AST, which is
    evaluated again in the next round.  The list starts with the pair whose expression was the last `right`. -/
def PS.chainAst (cfg : Cfg) : List (Nat × Expr) → W → R W Val
  | [], w => (.ok (P.ofBool true), w)
  | [_], w => (.ok (P.ofBool true), w)
  | (_, e1) :: (op2, e2) :: rest, w =>
      bind (PS.eval cfg e1 w) fun a w =>
      bind (PS.eval cfg e2 w) fun b w =>
      bind (P.cmp op2 a b w) fun t w =>
      if t then PS.chainAst cfg ((op2, e2) :: rest) w else (.ok (P.ofBool false), w)
def PS.pairs (cfg : Cfg) : List (Expr × Expr) → W → R W (List (Val × Val))
  | [], w => (.ok [], w)
  | (k, v) :: kvs, w =>
      if cfg.dictKeyFirst then
        bind (PS.eval cfg k w) fun a w => bind (PS.eval cfg v w) fun b w =>
        bind (PS.pairs cfg kvs w) fun ps w => (.ok ((a, b) :: ps), w)
      else
        bind (PS.eval cfg v w) fun b w => bind (PS.eval cfg k w) fun a w =>
        bind (PS.pairs cfg kvs w) fun ps w => (.ok ((a, b) :: ps), w)
end
end

def Expr.isConst : Expr → Bool
  | .const _ => true
  | _ => false

mutual
/-- fragment on which the current shapes are unobservable -/
def Conf (cfg : Cfg) : Expr → Bool
  | .const _ => true
  | .leaf _ => true
  | .binop _ l r => Conf cfg l && Conf cfg r
  | .compare l rest => Conf cfg l && ConfRest cfg rest && (cfg.compareOnce || midConst rest) && !rest.isEmpty
  | .dict kvs => ConfPairs cfg kvs
def ConfRest (cfg : Cfg) : List (Nat × Expr) → Bool
  | [] => true
  | (_, e) :: r => Conf cfg e && ConfRest cfg r
def ConfPairs (cfg : Cfg) : List (Expr × Expr) → Bool
  | [] => true
  | (k, v) :: r => Conf cfg k && Conf cfg v && (cfg.dictKeyFirst || k.isConst || v.isConst) && ConfPairs cfg r
/-- every operand except the last one of the chain is a constant -/
def midConst : List (Nat × Expr) → Bool
  | [] => true
  | [_] => true
  | (_, e) :: r => e.isConst && midConst r
end

end C01
