"""Control-flow skeleton differential: pyscript vs CPython (probe)."""
import asyncio, sys, types, logging, itertools, random, collections
sys.path.insert(0, "/repo")
from custom_components.pyscript.eval import AstEval
from custom_components.pyscript.function import Function
from custom_components.pyscript.global_ctx import GlobalContext, GlobalContextMgr
from custom_components.pyscript.const import DOMAIN, CONFIG_ENTRY
from custom_components.pyscript.decorator import DecoratorRegistry
logging.disable(logging.CRITICAL)
class CE: data={}
PRE = '''
class E0(Exception): pass
class E1(E0): pass
class E2(Exception): pass
class CM:
    def __init__(self, n, sup): self.n=n; self.sup=sup
    def __enter__(self): T("en%d"%self.n); return self
    def __exit__(self, t, v, tb): T("ex%d:%s"%(self.n, t.__name__ if t else "-")); return self.sup
'''
LEAVES = ["pass", "break", "continue", "return 7", "raise E1()", "raise E2()"]
def gen(depth, inloop, cnt):
    """yield (lines, shape) statement blocks"""
    for l in LEAVES:
        if l in ("break","continue") and not inloop: continue
        yield [f"T({next(cnt)})", l], l.split()[0]
    if depth == 0: return
    for body, sb in gen(depth-1, inloop, cnt):
        yield ["if T(%d, True):"%next(cnt)] + ind(body) + ["T(%d)"%next(cnt)], f"if({sb})"
    for kind in ("for","while"):
        for body, sb in gen(depth-1, True, cnt):
            for els, se in list(gen(0, inloop, cnt)) + [(None,"-")]:
                hdr = ["for i in range(2):"] if kind=="for" else ["w%d = 0"%depth, "while w%d < 2:"%depth, "    w%d += 1"%depth]
                lines = hdr + ind(body)
                if els: lines += ["else:"] + ind(els)
                yield lines + ["T(%d)"%next(cnt)], f"{kind}({sb})else({se})"
    for body, sb in gen(depth-1, inloop, cnt):
        for hnd, sh in list(gen(0, inloop, cnt)):
            for fin, sf in list(gen(0, inloop, cnt)) + [(None,"-")]:
                for hcls in ("E0","E2"):
                    lines = ["try:"] + ind(body) + [f"except {hcls}:"] + ind(hnd)
                    if fin: lines += ["finally:"] + ind(fin)
                    yield lines + ["T(%d)"%next(cnt)], f"try({sb})except{hcls}({sh})fin({sf})"
        for fin, sf in gen(0, inloop, cnt):
            yield ["try:"] + ind(body) + ["finally:"] + ind(fin) + ["T(%d)"%next(cnt)], f"try({sb})fin({sf})"
    for body, sb in gen(depth-1, inloop, cnt):
        for sup in (False, True):
            yield [f"with CM(1, {sup}):"] + ind(body) + ["T(%d)"%next(cnt)], f"with{int(sup)}({sb})"
def ind(ls): return ["    "+l for l in ls]
def program(lines):
    return PRE + "def f():\n" + "\n".join(ind(lines)) + "\n    return 0\ntry:\n    R = f()\nexcept BaseException as e:\n    R = 'exc:'+type(e).__name__\n"
async def run(src, ps):
    log=[]
    def T(tag, val=None):
        log.append(tag); return val
    G={"T":T}
    try:
        if ps:
            g = GlobalContext("test", global_sym_table=G, manager=GlobalContextMgr); a = AstEval("test", global_ctx=g); a.parse(src); await a.eval()
        else:
            exec(compile(src,"t","exec"), G)
    except BaseException as e:
        return log, "TOP:"+type(e).__name__
    return log, G.get("R")
async def main():
    Function.hass = types.SimpleNamespace(data={DOMAIN:{CONFIG_ENTRY:CE()}}, loop=asyncio.get_running_loop())
    DecoratorRegistry.init(Function.hass)
    depth=int(sys.argv[1]); n=0; diffs=collections.Counter(); ex={}
    for lines, shape in gen(depth, False, itertools.count(1)):
        src=program(lines)
        try: compile(src,"t","exec")
        except SyntaxError: continue
        n+=1
        a=await run(src,True); b=await run(src,False)
        if a!=b:
            key=shape
            diffs[key]+=1; ex.setdefault(key,(src[len(PRE):],a,b))
    print("programs",n,"diff shapes",len(diffs))
    import re
    cl=collections.Counter()
    for k,c in diffs.items():
        c2=re.sub(r"\b(E0|E2)\b","E",k); cl[c2]+=c
    for k,c in cl.most_common(40): print(c,k)
    return ex
ex=asyncio.run(main())
