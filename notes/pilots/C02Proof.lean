import Pv.C02
namespace C02

theorem finish_agree (r2 : Res) (r3 : Res × World) :
    lift (PS.finish r2 r3) = Py.finish r2.toOut (lift r3) := by
  rcases r3 with ⟨(_ | m) | e, w3⟩
  · simp [PS.finish, Py.finish, lift, Res.toOut]
  · cases m <;> simp [PS.finish, Py.finish, lift, Res.toOut]
  · simp [PS.finish, Py.finish, lift, Res.toOut]

theorem handles_agree (r : Res) (h : Option (Nat × List Stmt)) :
    Py.handles r.toOut h = PS.handles r h := by
  rcases r with (_ | m) | e
  · simp [PS.handles, Py.handles, Res.toOut]
  · cases m <;> simp [PS.handles, Py.handles, Res.toOut]
  · cases h <;> simp [PS.handles, Py.handles, Res.toOut]

/-- joint statement for a given fuel -/
def Agree (n : Nat) : Prop :=
  (∀ s w, lift (PS.exec n s w) = Py.exec n s w) ∧
  (∀ ss w, lift (PS.stmts n ss w) = Py.block n ss w) ∧
  (∀ b o w, lift (PS.loop n b o w) = Py.loop n b o w)

theorem agree_all : ∀ n, Agree n := by
  intro n
  induction n with
  | zero =>
    refine ⟨?_, ?_, ?_⟩
    · intro s w; simp [PS.exec, Py.exec, lift, Res.toOut]
    · intro ss w; simp [PS.stmts, Py.block, lift, Res.toOut]
    · intro b o w; simp [PS.loop, Py.loop, lift, Res.toOut]
  | succ n ih =>
    refine ⟨?_, ?_, ?_⟩
    · intro s w
      cases s with
      | tick i => simp [PS.exec, Py.exec, lift, Res.toOut]
      | brk => simp [PS.exec, Py.exec, lift, Res.toOut]
      | cont => simp [PS.exec, Py.exec, lift, Res.toOut]
      | ret i => simp [PS.exec, Py.exec, lift, Res.toOut]
      | raise e => simp [PS.exec, Py.exec, lift, Res.toOut]
      | ite b o =>
        simp only [PS.exec, Py.exec]
        rcases hn : w.next with ⟨c, w1⟩
        cases c <;> simp only []
        · simpa using ih.2.1 o w1
        · simpa using ih.2.1 b w1
      | while_ b o =>
        simp only [PS.exec, Py.exec]
        exact ih.2.2 b o w
      | try_ b h f =>
        simp only [PS.exec, Py.exec]
        have hb := ih.2.1 b w
        have hh : Py.handles (PS.stmts n b w).1.toOut h = PS.handles (PS.stmts n b w).1 h := handles_agree _ _
        rw [← hb]
        simp only [lift, hh]
        cases hsel : PS.handles (PS.stmts n b w).1 h with
        | none => simp only []; rw [← ih.2.1 f]; exact finish_agree _ _
        | some hb' =>
          simp only []
          rw [← ih.2.1 hb', ← ih.2.1 f]
          exact finish_agree _ _
    · intro ss w
      cases ss with
      | nil => simp [PS.stmts, Py.block, lift, Res.toOut]
      | cons s ss =>
        simp only [PS.stmts, Py.block]
        have hs := ih.1 s w
        simp only [lift] at hs
        rcases hps : PS.exec n s w with ⟨r, w'⟩
        rw [hps] at hs
        rw [← hs]
        rcases r with (_ | m) | e
        · simpa [Res.toOut] using ih.2.1 ss w'
        · cases m <;> simp [Res.toOut, lift]
        · simp [Res.toOut, lift]

    · intro b o w
      simp only [PS.loop, Py.loop]
      rcases hn : w.next with ⟨c, w1⟩
      cases c <;> simp only []
      · simpa using ih.2.1 o w1
      · have hb := ih.2.1 b w1
        simp only [lift] at hb
        rcases hps : PS.stmts n b w1 with ⟨r, w'⟩
        rw [hps] at hb
        simp only [if_true]
        rw [← hb]
        rcases r with (_ | m) | e
        · simpa [Res.toOut] using ih.2.2 b o w'
        · cases m with
          | brk => simp [Res.toOut, lift]
          | cont => simpa [lift, Res.toOut] using ih.2.2 b o w'
          | ret i => simp [Res.toOut, lift]
        · simp [Res.toOut, lift]

end C02

namespace C02
theorem C02_proto (n : Nat) (body : List Stmt) (w : World) :
    lift (PS.stmts n body w) = Py.block n body w := (agree_all n).2.1 body w
end C02
#print axioms C02.C02_proto
