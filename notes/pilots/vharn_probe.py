import asyncio, sys, heapq, os, tempfile, shutil, datetime as dt, logging, itertools
sys.path.insert(0, "/repo")
from unittest.mock import patch
from pytest_homeassistant_custom_component.common import async_test_home_assistant
from homeassistant.setup import async_setup_component
from homeassistant import loader
from homeassistant.const import EVENT_HOMEASSISTANT_STARTED

class VLoop(asyncio.SelectorEventLoop):
    T0 = 1000.0
    def __init__(self):
        super().__init__(); self._vt = self.T0; self._clock_resolution = 1e-6
        self.horizon = self.T0; self._idle_waiter = None; self._inflight = 0
    def time(self): return self._vt
    def run_in_executor(self, executor, func, *args):
        self._inflight += 1
        fut = super().run_in_executor(executor, func, *args)
        fut.add_done_callback(lambda f: setattr(self, "_inflight", self._inflight - 1))
        return fut
    def _run_once(self):
        while self._scheduled and self._scheduled[0]._cancelled:
            h = heapq.heappop(self._scheduled); h._scheduled = False
        if not self._ready and self._inflight == 0:
            nxt = self._scheduled[0]._when if self._scheduled else None
            if nxt is not None and nxt <= self.horizon:
                if nxt > self._vt: self._vt = nxt
            else:
                if self._vt < self.horizon: self._vt = self.horizon
                if self._idle_waiter is not None and not self._idle_waiter.done():
                    self._idle_waiter.set_result(None)
        super()._run_once()
    async def settle(self, until):
        """Advance virtual time to `until` (relative seconds), running everything due."""
        self.horizon = self.T0 + until
        for _ in range(3):
            self._idle_waiter = self.create_future()
            await self._idle_waiter
        self._idle_waiter = None

BASE = dt.datetime(2024, 6, 3, 12, 0, 0)
_tick = itertools.count()
def vnow():
    return BASE + dt.timedelta(seconds=asyncio.get_event_loop().time() - VLoop.T0)

async def with_pyscript(files, legacy, body, extra_cfg=None):
    loop = asyncio.get_running_loop()
    cfgdir = tempfile.mkdtemp(prefix="pysc")
    try:
        for rel, src in files.items():
            p = os.path.join(cfgdir, "pyscript", rel); os.makedirs(os.path.dirname(p), exist_ok=True)
            open(p, "w").write(src)
        async with async_test_home_assistant(loop, config_dir=cfgdir) as hass:
            hass.data.pop(loader.DATA_CUSTOM_COMPONENTS, None)
            cfg = {"allow_all_imports": True, "legacy_decorators": legacy}; cfg.update(extra_cfg or {})
            config = {"pyscript": cfg}
            with patch("custom_components.pyscript.trigger.dt_now", vnow), \
                 patch("custom_components.pyscript.trigger.time.monotonic", loop.time), \
                 patch("homeassistant.config.load_yaml_config_file", return_value=config), \
                 patch("custom_components.pyscript.watchdog_start", return_value=None):
                from custom_components.pyscript.function import Function
                assert await async_setup_component(hass, "pyscript", config)
                Function.register({"vtime": lambda: round(asyncio.get_event_loop().time() - VLoop.T0, 3)})
                hass.bus.async_fire(EVENT_HOMEASSISTANT_STARTED)
                await loop.settle(0.001)
                try:
                    return await body(hass, loop)
                finally:
                    await hass.async_stop(force=True)
    finally:
        shutil.rmtree(cfgdir, ignore_errors=True)

def run(files, legacy, body, **kw):
    logging.disable(logging.CRITICAL)
    loop = VLoop(); asyncio.set_event_loop(loop)
    try: return loop.run_until_complete(with_pyscript(files, legacy, body, **kw))
    finally: loop.close()
