import Pv.C02
namespace C02
/-- current code: the `else` clause of a loop only looks for EvalReturn -/
def dropNonRet (r : Res × World) : Res × World :=
  match r with
  | (.ok (some (.ret i)), w) => (.ok (some (.ret i)), w)
  | (.exc e, w) => (.exc e, w)
  | (_, w) => (.ok none, w)

-- outer: while c1 { inner: while c2 {tick 1} else {brk} ; tick 2 }   tape: c1=T, c2=F, (c1=T would loop again)
def prog : List Stmt := [.while_ [.while_ [.tick 1] [.brk], .tick 2] []]
def w0 : World := { log := [], tape := [true, false, true, false, false] }

-- reference: inner else executes `break`, which leaves the OUTER loop: tick 2 never runs
example : (Py.block 10 prog w0).2.log = [] := by decide
-- model of the fixed code agrees
example : (PS.stmts 10 prog w0).2.log = [] := by decide
-- model of the current code = fixed model with the else-result passed through dropNonRet: emulate on this instance
example : (dropNonRet (PS.stmts 9 [.brk] w0)).1 = .ok none := by decide
end C02
namespace C02
theorem cex_kernel : (Py.block 10 prog w0).2.log = [] := by decide
example : (Py.block 10 prog w0).2.log = [] := by rfl
end C02
#print axioms C02.cex_kernel
#print C02.Py.exec
