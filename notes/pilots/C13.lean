/-! Pilot: task.unique bookkeeping as a transition system over atomic steps. -/
namespace C13
abbrev Task := Nat
abbrev Name := Nat

structure St where
  owner   : Name → Option Task          -- unique_name2task
  names   : Task → Name → Bool          -- unique_task2name (membership)
  live    : Task → Bool                 -- not yet exited
  ours    : Task → Bool                 -- in our_tasks
  cancel  : Task → Bool                 -- handed to the reaper
  claimed : Name → Task → Bool          -- ghost: t has called unique(n) and was not parked

def init (ours : Task → Bool) : St :=
  { owner := fun _ => none, names := fun _ _ => false, live := fun _ => true, ours := ours,
    cancel := fun _ => false, claimed := fun _ _ => false }

inductive Op where
  | unique (t : Task) (n : Name) (killMe : Bool)
  | exit (t : Task)                     -- run_coro's finally (normal end, exception, or delivered cancel)

def upd {α} (f : Nat → α) (k : Nat) (v : α) : Nat → α := fun x => if x = k then v else f x

/-- `reaper_cancel(o)` -/
def cancelTask (s : St) (o : Task) : St := { s with cancel := upd s.cancel o true }

/-- the claim at the end of `task_unique`: previous owner (if another task) loses `n`, `t` gets it -/
def claim (s : St) (t : Task) (n : Name) : St :=
  { s with owner := upd s.owner n (some t),
           names := fun x m => if m = n then decide (x = t) else s.names x m,
           claimed := fun m x => if m = n ∧ x = t then true else s.claimed m x }

def uniqueStep (s : St) (t : Task) (n : Name) (km : Bool) : St :=
  if !s.live t then s else
  match s.owner n with
  | some o =>
    if km then (if o ≠ t then cancelTask s t else s)        -- caller parks itself; no claim
    else
      let s1 := if o ≠ t ∧ s.ours o then cancelTask s o else s
      if s.ours t then claim s1 t n else s1
  | none => if s.ours t then claim s t n else s

def exitStep (s : St) (t : Task) : St :=
  { s with owner := fun n => if s.names t n then none else s.owner n,
           names := fun x m => if x = t then false else s.names x m,
           live := upd s.live t false }

def step (s : St) : Op → St
  | .unique t n km => uniqueStep s t n km
  | .exit t => exitStep s t

structure Inv (s : St) : Prop where
  own_names : ∀ n t, s.owner n = some t → s.names t n = true ∧ s.live t = true ∧ s.ours t = true
  names_own : ∀ n t, s.names t n = true → s.owner n = some t
  displaced : ∀ n t, s.claimed n t = true → s.live t = true → s.owner n ≠ some t → s.cancel t = true

end C13
