import Pv.C13
namespace C13

theorem inv_init (o : Task → Bool) : Inv (init o) := by
  constructor <;> simp [init]

theorem inv_cancel (s : St) (o : Task) (h : Inv s) : Inv (cancelTask s o) := by
  obtain ⟨h1, h2, h3⟩ := h
  refine ⟨h1, h2, ?_⟩
  intro n t hc hl ho
  have := h3 n t hc hl ho
  simp only [cancelTask, upd]
  split <;> simp_all

/-- claiming when every other live claimant-owner of `n` is already cancelled -/
theorem inv_claim (s : St) (t : Task) (n : Name) (h : Inv s) (hl : s.live t = true) (ho : s.ours t = true)
    (hprev : ∀ o, s.owner n = some o → o ≠ t → s.cancel o = true) : Inv (claim s t n) := by
  obtain ⟨h1, h2, h3⟩ := h
  constructor
  · intro m u hu
    simp only [claim, upd] at hu ⊢
    by_cases hm : m = n
    · subst hm
      simp only [if_true, Option.some.injEq] at hu
      subst hu
      simp [hl, ho]
    · simp only [hm, if_false] at hu ⊢
      exact h1 m u hu
  · intro m u hu
    simp only [claim, upd] at hu ⊢
    by_cases hm : m = n
    · subst hm
      simp only [if_true, decide_eq_true_eq] at hu
      simp [hu]
    · simp only [hm, if_false] at hu ⊢
      exact h2 m u hu
  · intro m u hc hlu hou
    simp only [claim, upd] at hc hlu hou ⊢
    by_cases hm : m = n
    · subst hm
      simp only [if_true, true_and] at hc hou
      by_cases hut : u = t
      · subst hut; simp at hou
      · simp only [hut, if_false] at hc
        by_cases hown : s.owner m = some u
        · exact hprev u hown hut
        · exact h3 m u hc hlu hown
    · simp only [hm, false_and, if_false] at hc hou
      exact h3 m u hc hlu hou

theorem inv_exit (s : St) (t : Task) (h : Inv s) : Inv (exitStep s t) := by
  obtain ⟨h1, h2, h3⟩ := h
  constructor
  · intro n u hu
    simp only [exitStep] at hu ⊢
    by_cases hn : s.names t n = true
    · simp [hn] at hu
    · simp only [hn, Bool.false_eq_true, if_false] at hu
      obtain ⟨a, b, c⟩ := h1 n u hu
      have hut : u ≠ t := by
        intro e; subst e; exact hn a
      simp [upd, hut, a, b, c]
  · intro n u hu
    simp only [exitStep] at hu ⊢
    by_cases hut : u = t
    · simp [hut] at hu
    · simp only [hut, if_false] at hu
      have := h2 n u hu
      by_cases hn : s.names t n = true
      · have := h2 n t hn; simp_all
      · simp [hn, this]
  · intro n u hc hl ho
    simp only [exitStep, upd] at hc hl ho ⊢
    by_cases hut : u = t
    · simp [hut] at hl
    · simp only [hut, if_false] at hl
      apply h3 n u hc hl
      intro e
      apply ho
      by_cases hn : s.names t n = true
      · have := h2 n t hn; rw [this] at e; cases e; exact absurd rfl hut
      · simp [hn, e]

theorem inv_unique (s : St) (t : Task) (n : Name) (km : Bool) (h : Inv s) : Inv (uniqueStep s t n km) := by
  unfold uniqueStep
  by_cases hl : s.live t = true
  · simp only [hl, Bool.not_true, Bool.false_eq_true, if_false]
    cases hown : s.owner n with
    | none =>
      simp only []
      by_cases ho : s.ours t = true
      · simp only [ho, if_true]
        exact inv_claim s t n h hl ho (by intro o h'; rw [hown] at h'; cases h')
      · simp only [ho, Bool.false_eq_true, if_false]; exact h
    | some o =>
      simp only []
      cases km
      · simp only [Bool.false_eq_true, if_false]
        have hoo : s.ours o = true := (h.own_names n o hown).2.2
        by_cases hot : o = t
        · subst hot
          simp only [ne_eq, not_true_eq_false, false_and, if_false]
          by_cases ho : s.ours o = true
          · simp only [ho, if_true]
            exact inv_claim s o n h hl ho (by intro o' h' hne; rw [hown] at h'; cases h'; exact absurd rfl hne)
          · simp only [ho, Bool.false_eq_true, if_false]; exact h
        · simp only [ne_eq, hot, not_false_eq_true, hoo, and_self, if_true]
          have hc := inv_cancel s o h
          by_cases ho : s.ours t = true
          · simp only [ho, if_true]
            refine inv_claim (cancelTask s o) t n hc (by simpa [cancelTask] using hl) (by simpa [cancelTask] using ho) ?_
            intro o' h' _
            have : o' = o := by simpa [cancelTask, hown] using h'.symm
            subst this
            simp [cancelTask, upd]
          · simp only [ho, Bool.false_eq_true, if_false]; exact hc
      · simp only [if_true]
        by_cases hot : o = t
        · simp [hot]; exact h
        · simp only [ne_eq, hot, not_false_eq_true, if_true]; exact inv_cancel s t h
  · have : s.live t = false := by simpa using hl
    simp [this]; exact h

theorem inv_step (s : St) (op : Op) (h : Inv s) : Inv (step s op) := by
  cases op with
  | unique t n km => exact inv_unique s t n km h
  | exit t => exact inv_exit s t h

/-- every reachable state, i.e. every schedule of any number of tasks -/
theorem inv_reachable (o : Task → Bool) (ops : List Op) : Inv (ops.foldl step (init o)) := by
  have : ∀ s, Inv s → Inv (ops.foldl step s) := by
    induction ops with
    | nil => intro s h; simpa using h
    | cons op ops ih => intro s h; simpa using ih _ (inv_step s op h)
  exact this _ (inv_init o)

end C13
