import asyncio, sys, types, logging, itertools
sys.path.insert(0, "/repo")
from custom_components.pyscript.eval import AstEval
from custom_components.pyscript.function import Function
from custom_components.pyscript.global_ctx import GlobalContext, GlobalContextMgr
from custom_components.pyscript.const import DOMAIN, CONFIG_ENTRY
from custom_components.pyscript.decorator import DecoratorRegistry
logging.disable(logging.CRITICAL)
class CE: data={}
def sigs():
    # up to 2 params of each kind: posonly (with/without default), normal, vararg, kwonly, kwarg
    for npo, nn, nk in itertools.product(range(3), range(3), range(3)):
        for ndef in range(npo+nn+1):
            for va in (False, True):
                for kw in (False, True):
                    for kdef in range(nk+1):
                        po=[f"p{i}" for i in range(npo)]; no=[f"a{i}" for i in range(nn)]
                        allp=po+no
                        parts=[]
                        for i,nm in enumerate(allp):
                            d = i >= len(allp)-ndef
                            parts.append(nm + (f"={100+i}" if d else ""))
                            if i==npo-1: parts.append("/")
                        if va: parts.append("*va")
                        elif nk: parts.append("*")
                        for i in range(nk):
                            parts.append(f"k{i}" + (f"={200+i}" if i < kdef else ""))
                        if kw: parts.append("**kw")
                        names = allp + (["va"] if va else []) + [f"k{i}" for i in range(nk)] + (["kw"] if kw else [])
                        yield ", ".join(parts), names
def calls():
    pool = ["p0","a0","a1","k0","zz"]
    for npos in range(4):
        for kws in itertools.chain.from_iterable(itertools.combinations(pool, r) for r in range(3)):
            yield ", ".join([str(i+1) for i in range(npos)] + [f"{k}={10+j}" for j,k in enumerate(kws)])
async def main():
    Function.hass = types.SimpleNamespace(data={DOMAIN:{CONFIG_ENTRY:CE()}}, loop=asyncio.get_running_loop())
    DecoratorRegistry.init(Function.hass)
    n=0; diffs={}
    for sig, names in sigs():
        src = f"def f({sig}):\n    return ({', '.join(names)}{',' if names else ''})\n"
        try: compile(src,"t","exec")
        except SyntaxError: continue
        body = src + "R=[]\n" + "".join(f"try:\n    R.append(f({c}))\nexcept TypeError:\n    R.append('TE')\n" for c in calls())
        G={}; exec(compile(body,"t","exec"),G); exp=G["R"]
        g = GlobalContext("test", global_sym_table={}, manager=GlobalContextMgr); a = AstEval("test", global_ctx=g)
        a.parse(body); await a.eval(); got=g.global_sym_table["R"]
        for c,e,o in zip(calls(),exp,got):
            n+=1
            if e!=o: diffs.setdefault((sig),[]).append((c,e,o))
    print("cases",n,"sigs with diffs",len(diffs))
    for k,v in list(diffs.items())[:12]: print("def f(%s):"%k, v[:3])
asyncio.run(main())
