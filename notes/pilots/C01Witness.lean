import Pv.C01Proof
#print axioms C01.eval_eq
open C01 in
/-- recorder primitives: world = (next id, log) -/
def rec : Prims (Nat × List String) where
  leaf i w := (.ok (100+i), (w.1, w.2 ++ [s!"T{i}"]))
  binop op a b w := (.ok (w.1), (w.1+1, w.2 ++ [s!"bin{op}({a},{b})"]))
  cmp op a b w := (.ok (a < b), (w.1, w.2 ++ [s!"cmp{op}({a},{b})"]))
  build ps w := (.ok w.1, (w.1+1, w.2 ++ [s!"dict{ps}"]))
  ofBool b := if b then 1 else 0
open C01 in
#eval (PS.eval rec Cfg.current (.dict [(.leaf 1, .leaf 2)]) (1000, [])).2.2
open C01 in
#eval (Py.eval rec (.dict [(.leaf 1, .leaf 2)]) (1000, [])).2.2
open C01 in
#eval (PS.eval rec Cfg.current (.compare (.leaf 1) [(0, .leaf 2), (0, .leaf 3)]) (1000, [])).2.2
open C01 in
#eval (Py.eval rec (.compare (.leaf 1) [(0, .leaf 2), (0, .leaf 3)]) (1000, [])).2.2
open C01 in
example : (PS.eval rec Cfg.current (.dict [(.leaf 1, .leaf 2)]) (1000, [])).2.2 ≠ (Py.eval rec (.dict [(.leaf 1, .leaf 2)]) (1000, [])).2.2 := by decide
