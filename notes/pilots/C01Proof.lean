import Pv.C01
namespace C01
variable {W : Type} (P : Prims W) (cfg : Cfg)

@[simp] theorem bind_ok {α β} (a : α) (w : W) (k : α → W → R W β) : bind (Except.ok a, w) k = k a w := rfl
@[simp] theorem bind_err {α β} (e : Exc) (w : W) (k : α → W → R W β) : bind ((Except.error e : Except Exc α), w) k = (.error e, w) := rfl

theorem bind_congr {α β} (r : R W α) (k k' : α → W → R W β) (h : ∀ a w, k a w = k' a w) : bind r k = bind r k' := by
  rcases r with ⟨(e | a), w⟩ <;> simp [h]

theorem isConst_eq {e : Expr} (h : e.isConst = true) : ∃ c, e = .const c := by
  cases e <;> simp [Expr.isConst] at h; exact ⟨_, rfl⟩

/-- swapping a constant with any evaluation is unobservable -/
theorem swap_const {β} (c : Nat) (r : R W Val) (k : Val → Val → W → R W β) :
    (bind r fun b w => bind ((Except.ok c, w) : R W Val) fun a w => k a b w) =
    (bind ((Except.ok c, r.2) : R W Val) fun a _ => bind r fun b w => k a b w) := by
  rcases r with ⟨(e | b), w⟩ <;> simp

mutual
theorem eval_eq : ∀ (e : Expr) (w : W), Conf cfg e = true → PS.eval P cfg e w = Py.eval P e w
  | .const k, w, _ => by simp [PS.eval, Py.eval]
  | .leaf i, w, _ => by simp [PS.eval, Py.eval]
  | .binop op l r, w, h => by
      simp only [Conf, Bool.and_eq_true] at h
      simp only [PS.eval, Py.eval]
      rw [eval_eq l w h.1]
      exact bind_congr _ _ _ fun a w => by rw [eval_eq r w h.2]
  | .compare l [], w, h => by
      simp [Conf] at h
  | .compare l ((op, e) :: rest), w, h => by
      simp only [Conf, ConfRest, Bool.and_eq_true, Bool.or_eq_true, List.isEmpty_cons, Bool.not_false, and_true] at h
      obtain ⟨⟨hl, he, hr⟩, hm⟩ := h
      cases hc : cfg.compareOnce
      · have hm' : midConst ((op, e) :: rest) = true := by simpa [hc] using hm
        simp only [PS.eval, Py.eval, Py.chain, hc, Bool.false_eq_true, if_false]
        rw [eval_eq l w hl]
        refine bind_congr _ _ _ fun a w => ?_
        cases rest with
        | nil =>
          rw [eval_eq e w he]
          refine bind_congr _ _ _ fun b w => bind_congr _ _ _ fun t w => ?_
          cases t <;> simp [PS.chainAst, Py.chain]
        | cons q r =>
          simp only [midConst, Bool.and_eq_true] at hm'
          obtain ⟨c, rfl⟩ := isConst_eq hm'.1
          simp only [PS.eval, Py.eval, bind_ok]
          refine bind_congr _ _ _ fun t w => ?_
          cases t
          · simp
          · simp only [if_true]
            exact chainAst_eq op c (q :: r) w hr (by simp [midConst, Expr.isConst, hm'.2])
      · simp only [PS.eval, Py.eval, hc, if_true]
        rw [eval_eq l w hl]
        exact bind_congr _ _ _ fun a w => chainOnce_eq a _ w (by simp [ConfRest, he, hr])
  | .dict kvs, w, h => by
      simp only [Conf] at h
      simp only [PS.eval, Py.eval]
      rw [pairs_eq kvs w h]
theorem chainOnce_eq : ∀ (a : Val) (rest : List (Nat × Expr)) (w : W), ConfRest cfg rest = true →
    PS.chainOnce P cfg a rest w = Py.chain P a rest w
  | _, [], w, _ => by simp [PS.chainOnce, Py.chain]
  | a, (op, e) :: rest, w, h => by
      simp only [ConfRest, Bool.and_eq_true] at h
      simp only [PS.chainOnce, Py.chain]
      rw [eval_eq e w h.1]
      refine bind_congr _ _ _ fun b w => bind_congr _ _ _ fun t w => ?_
      cases t <;> simp [chainOnce_eq b rest w h.2]
/-- after a successful comparison whose right operand was the constant `c` (re-evaluating it is silent) -/
theorem chainAst_eq : ∀ (op : Nat) (c : Nat) (rest : List (Nat × Expr)) (w : W),
    ConfRest cfg rest = true → midConst ((op, .const c) :: rest) = true →
    PS.chainAst P cfg ((op, .const c) :: rest) w = Py.chain P c rest w
  | op, c, [], w, _, _ => by simp [PS.chainAst, Py.chain]
  | op, c, [(op2, e2)], w, hr, _ => by
      simp only [ConfRest, Bool.and_eq_true] at hr
      simp only [PS.chainAst, Py.chain, PS.eval, bind_ok]
      rw [eval_eq e2 w hr.1]
  | op, c, (op2, e2) :: q :: r, w, hr, hm => by
      simp only [ConfRest, Bool.and_eq_true] at hr
      simp only [midConst, Bool.and_eq_true, Expr.isConst, true_and] at hm
      obtain ⟨c2, rfl⟩ := isConst_eq hm.1
      simp only [PS.chainAst, Py.chain, PS.eval, Py.eval, bind_ok]
      refine bind_congr _ _ _ fun t w => ?_
      cases t
      · simp
      · simp only [if_true]
        exact chainAst_eq op2 c2 (q :: r) w (by simp [ConfRest, hr.2.1, hr.2.2]) (by simp [midConst, Expr.isConst, hm.2])
theorem pairs_eq : ∀ (kvs : List (Expr × Expr)) (w : W), ConfPairs cfg kvs = true →
    PS.pairs P cfg kvs w = Py.pairs P kvs w
  | [], w, _ => by simp [PS.pairs, Py.pairs]
  | (k, v) :: kvs, w, h => by
      simp only [ConfPairs, Bool.and_eq_true, Bool.or_eq_true] at h
      obtain ⟨⟨⟨hk, hv⟩, hord⟩, hrest⟩ := h
      simp only [PS.pairs, Py.pairs]
      have tail : ∀ a b w, (bind (PS.pairs P cfg kvs w) fun ps w => ((Except.ok ((a, b) :: ps), w) : R W _)) =
                          (bind (Py.pairs P kvs w) fun ps w => (Except.ok ((a, b) :: ps), w)) := by
        intro a b w; rw [pairs_eq kvs w hrest]
      cases hd : cfg.dictKeyFirst
      · simp only [Bool.false_eq_true, if_false]
        have hord' : k.isConst = true ∨ v.isConst = true := by simpa [hd] using hord
        rcases hord' with hk' | hv'
        · obtain ⟨c, rfl⟩ := isConst_eq hk'
          simp only [PS.eval, Py.eval, bind_ok]
          rw [eval_eq v w hv]
          exact bind_congr _ _ _ fun b w => tail _ _ _
        · obtain ⟨c, rfl⟩ := isConst_eq hv'
          simp only [PS.eval, Py.eval, bind_ok]
          rw [eval_eq k w hk]
          exact bind_congr _ _ _ fun a w => tail _ _ _
      · simp only [if_true]
        rw [eval_eq k w hk]
        refine bind_congr _ _ _ fun a w => ?_
        rw [eval_eq v w hv]
        exact bind_congr _ _ _ fun b w => tail _ _ _
end

end C01
