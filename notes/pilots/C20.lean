/-! Pilot: requirement merge – fold mirroring `process_all_requirements`, characterised order-independently. -/
namespace C20

inductive Req (V : Type) where
  | unpinned
  | pinned (v : V)
deriving Repr, DecidableEq

/-- one package (the per-package projection of the table); `none` = not recorded yet.
    `le a b` = Version(a) ≤ Version(b); all recorded/new pins are assumed valid here (the WellFormedPin fragment). -/
def merge1 {V} (le : V → V → Bool) (cur : Option (Req V)) (new : Req V) : Option (Req V) :=
  match cur, new with
  | none, r => some r                                           -- `if not current_pinned_version`
  | some (.pinned c), .unpinned => some (.pinned c)             -- new unpinned, existing pinned: keep
  | some .unpinned, .pinned v => some (.pinned v)               -- new pinned replaces unpinned
  | some .unpinned, .unpinned => some .unpinned
  | some (.pinned c), .pinned v =>
      if le c v && le v c then some (.pinned c)                 -- equal versions: keep current string
      else if le c v then some (.pinned v)                      -- lower < new: replace
      else some (.pinned c)                                     -- higher: keep

def mergeAll {V} (le : V → V → Bool) (ls : List (Req V)) : Option (Req V) := ls.foldl (merge1 le) none

/-- order-independent characterisation of a result -/
def IsBest {V} (le : V → V → Bool) (ls : List (Req V)) (r : Option (Req V)) : Prop :=
  match r with
  | none => ls = []
  | some .unpinned => ls ≠ [] ∧ ∀ x ∈ ls, x = .unpinned
  | some (.pinned v) => .pinned v ∈ ls ∧ ∀ u, .pinned u ∈ ls → le u v = true

end C20
