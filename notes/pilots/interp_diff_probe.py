import asyncio, sys, types, logging
sys.path.insert(0, "/repo")
from custom_components.pyscript.eval import AstEval
from custom_components.pyscript.function import Function
from custom_components.pyscript.global_ctx import GlobalContext, GlobalContextMgr
from custom_components.pyscript.const import DOMAIN, CONFIG_ENTRY
logging.disable(logging.CRITICAL)
class CE: data={}
PRE = '''
class CM:
    def __init__(self, n, sup=False, fail_enter=False):
        self.n=n; self.sup=sup; self.fe=fail_enter; T("init"+n)
    def __enter__(self):
        T("enter"+self.n)
        if self.fe: raise ValueError("enter"+self.n)
        return self
    def __exit__(self, t, v, tb):
        T("exit"+self.n+":"+(t.__name__ if t else "None")); return self.sup
'''
def canon(v):
    try: return repr(v)
    except Exception: return "<?>"
async def run_py(src, pyscript):
    log=[]
    def T(tag, val=None):
        log.append(tag); return val
    G={"T":T}
    exc=None
    try:
        if pyscript:
            g = GlobalContext("test", global_sym_table=G, manager=GlobalContextMgr)
            a = AstEval("test", global_ctx=g); Function.install_ast_funcs(a)
            a.parse(PRE+src); await a.eval()
        else:
            exec(compile(PRE+src,"t","exec"), G)
    except BaseException as e:
        exc=type(e).__name__
    vals={k:canon(v) for k,v in G.items() if k not in("T","__builtins__","CM") and not callable(v)}
    return log, exc, vals
async def main():
    Function.hass = types.SimpleNamespace(data={DOMAIN:{CONFIG_ENTRY:CE()}}, loop=asyncio.get_running_loop())
    from custom_components.pyscript.decorator import DecoratorRegistry
    DecoratorRegistry.init(Function.hass)
    srcs = open(sys.argv[1]).read().split("\n#---\n")
    for s in srcs:
        a = await run_py(s, True); b = await run_py(s, False)
        print("SAME" if a==b else "DIFF", "|", s.strip().replace("\n"," ⏎ ")[:150])
        if a!=b: print("   pyscript:", a); print("   cpython :", b)
asyncio.run(main())
